"""vt.py -- an independent VT100 / VT102 / xterm terminal interpreter (reference model).

Written from the xterm control-sequence documentation ("ctlseqs"), ECMA-48, the VT100 User
Guide / VT102 manual and Paul Williams' DEC-compatible parser state diagram.  It does NOT
import urwid and copies nothing from it.  Only stdlib + the `wcwidth` package are used.

API
===
    vt = VT(cols, rows, *, utf8=True, bce=False, quirks=frozenset(),
            encoding="latin-1", c1=False, altfont_map="cp437", max_scrollback=10000, lock_utf8=False)
        lock_utf8=True: the character set is pinned to UTF-8 (xterm "utf8: always" / a UTF-8 locale):
        ESC % @ is ignored.  Otherwise ESC % G (and the obsolete linux-console ESC % 8) select UTF-8 and
        ESC % @ returns to the 8-bit set given by `encoding`; RIS restores the constructor's choice.

    vt.feed(data: bytes)        incremental, any chunking gives the same result; never raises
    vt.cols, vt.rows
    vt.cells[y][x] -> Cell      (the ACTIVE screen: main or alternate)
        Cell fields: ch      glyph AFTER charset translation (str; ' ' = blank; may carry
                             combining marks appended; '' for the trailing half of a wide char)
                     fg, bg  None = default | int 0..255 (palette) | (r, g, b)
                     bold, dim, italics, underline, blink, reverse, strikethrough   (bools)
                     wide    0 single, 1 lead half of a double-width char, 2 trailing half
                     erased  True if the cell was blanked (initial / erase / scroll / insert)
                             rather than printed -- lets an oracle skip attrs of erased cells
                     garbage True for "never painted" sentinel cells (fill_garbage / resize(fill=))
        Cell.style()   -> (fg, bg, bold, dim, italics, underline, blink, reverse, strikethrough)
    vt.cursor -> (x, y)         0-based; x is always < cols (see pending_wrap)
    vt.cursor_visible           DECTCEM
    vt.pending_wrap             "last column flag": a glyph was written in the last column
                                with autowrap on; the next printable wraps first
    vt.alt_screen               True while the alternate screen is active (47 / 1047 / 1049)
    vt.insert_mode              IRM (CSI 4 h / CSI 4 l)
    vt.autowrap, vt.origin_mode, vt.newline_mode
    vt.modes                    set of active DEC private modes (ints), e.g. {7, 25, 1000, 1002,
                                1006, 2004, 1004, 1049}.  7 and 25 are in the set initially.
    vt.ansi_modes               set of active ANSI modes (4 = IRM, 20 = LNM)
    vt.charsets                 [G0, G1, G2, G3] designations: 'B' ascii, '0' DEC special
                                graphics, 'A' UK, others recorded verbatim and treated as ascii
    vt.gl                       0 after SI, 1 after SO (2/3 after LS2/LS3): which Gn is in GL
    vt.charset                  vt.charsets[vt.gl]
    vt.altfont                  True after SGR 11/12 (linux console "alternate font"), False after 10
    vt.style                    Cell holding the current SGR state (ch == ' ')
    vt.scroll_region -> (top, bottom)   0-based inclusive
    vt.scroll_count             number of single-line scrolls of screen content so far (LF/IND/NEL
                                at the bottom margin, RI at the top margin, autowrap at the bottom
                                margin, SU/SD; IL/DL are not counted)
    vt.scrollback               list of rows (lists of Cell) scrolled off the top of the MAIN
                                screen while the region started at row 0, oldest first
    vt.title, vt.icon_title     OSC 0 / 2 and OSC 0 / 1
    vt.bells                    number of BELs received in ground state
    vt.responses                list[bytes] the terminal would send back (DSR 5, DSR 6, DA, DA2, DECID)
    vt.take_responses()         return and clear vt.responses
    vt.unknown                  list of unrecognised-but-well-formed sequences (tuples), capped
    vt.tabstops                 sorted list of tab columns

    vt.resize(cols, rows, fill=None)   new size; content is kept top-left aligned, new cells are
                                blank; if `fill` (a Cell, normally GARBAGE) is given the whole grid
                                (both screens) is refilled with it instead, so that only a true full
                                repaint yields a clean screen.  Scroll region resets to the full
                                screen, cursor is clamped, pending_wrap cleared, tabs re-initialised.
    vt.fill_garbage()           refill both screens with the GARBAGE sentinel
    vt.snapshot(attrs=True, cursor=True)   hashable, comparable dump (glyph+style per cell,
                                cursor, visibility)
    vt.text_rows()              list[str], one per row, glyphs of the active screen (trailing
                                halves of wide chars skipped; garbage cells show as '\\x00')
    vt.row_text(y), vt.dump()   helpers for messages

Supported
---------
C0: BEL BS HT LF VT FF CR SO SI CAN SUB ESC (NUL/DEL ignored).  ESC: 7 8 D E H M c = > N O Z \\
( ) * + - . / designations, # 8, % G / % @, n o (LS2 LS3), SP F/G.  CSI: @ A B C D E F G H I J K L
M P S T X Z ` a b c d e f g h l m n r s u, ? h l (private modes), ? J K, > c, ! p, SP q.
SGR 0-9, 10-12, 21-29, 30-39 (38;5;n 38;2;r;g;b and colon forms), 40-49, 90-97, 100-107.
Modes: IRM, LNM, DECCKM(1) DECCOLM(3, recorded only) DECSCNM(5, recorded) DECOM(6) DECAWM(7)
DECTCEM(25) 47 1047 1048 1049, everything else just recorded in .modes.
OSC / DCS / SOS / PM / APC strings terminated by BEL (OSC) or ST; unknown sequences are consumed
silently following the ECMA-48 grammar (parameter bytes 0x30-0x3f, intermediates 0x20-0x2f,
final 0x40-0x7e); C0 controls inside a CSI are executed; CAN / SUB abort; ESC restarts.
Double-width characters via wcwidth (a wide char that does not fit in the last column wraps
first when autowrap is on); zero-width characters attach to the previous cell.
UTF-8: strict decoder, each maximal invalid subpart becomes one U+FFFD.

Interpretation choices (all "disputed corners" are listed so checks can avoid them)
-----------------------------------------------------------------------------------
* pending_wrap is cleared by every cursor-addressing / vertical-motion / erase / insert / delete
  operation and by CR, BS; it is not cleared by SGR, charset selection or HT.  BS from the
  pending-wrap state moves to column cols-2 (xterm).
* ED 1 / EL 1 include the cursor cell (VT100 manual).
* IL / DL move the cursor to column 0 (VT102 manual; xterm keeps the column).
* Erased cells get the default rendition, or the current background if bce=True.
* CUU / CUD stop at the margin if the cursor started inside the region, else at the screen edge.
* DECSTBM with top >= bottom is ignored; a valid one homes the cursor.
* a parameter value is capped at 10**6; 0 / missing take the documented default.
* in utf8 mode raw bytes 0x80-0x9f are invalid UTF-8 (U+FFFD), decoded U+0080-U+009F are ignored
  unless c1=True (then treated as C1 controls); in 8-bit mode bytes >= 0x80 are decoded with
  `encoding` (C1 controls when c1=True).

quirks
------
`quirks` is a set of names; each switches the model to mimic ONE deviation observed in some
implementation (see the QUIRKS dict below for the names and their exact meaning; several may be
enabled together).  Unknown names raise ValueError at construction so that a typo cannot silently
disable a classifier.  The names found while building C15 against urwid.vterm.TermCanvas are:
pending-wrap-survives-cursor-motion, ed1-excludes-cursor-cell, width1-wrap-loses-pending,
autowrap-below-region-scrolls-region, il-removes-line-above-bottom-margin, and the two
interpretation switches il-dl-keep-column (xterm) and scrollback-saves-region-lines.

Self-test: `python -m vmon.models.vt`
"""

from __future__ import annotations

from typing import NamedTuple

from wcwidth import wcwidth as _wcwidth

__all__ = ["BLANK", "DEC_GRAPHICS", "GARBAGE", "QUIRKS", "VT", "Cell"]

MAXPARAM = 10**6


class Cell(NamedTuple):
    ch: str = " "
    fg: object = None
    bg: object = None
    bold: bool = False
    dim: bool = False
    italics: bool = False
    underline: bool = False
    blink: bool = False
    reverse: bool = False
    strikethrough: bool = False
    wide: int = 0
    erased: bool = True
    garbage: bool = False

    def style(self):
        return self[1:10]

    def key(self):
        """glyph + style + width part, without the erased marker"""
        return self[:11] + (self[12],)


BLANK = Cell()
GARBAGE = Cell(ch="\x00", garbage=True, erased=False)

# DEC Special Graphics (VT100 "line drawing") set: 0x5f..0x7e, from the xterm ctlseqs / VT100 manual
DEC_GRAPHICS = dict(
    zip(
        range(0x5F, 0x7F),
        " ◆▒␉␌␍␊°±␤␋┘┐┌└┼"
        "⎺⎻─⎼⎽├┤┴┬│≤≥π≠£·",
    )
)
# 0x5f is a blank in the DEC set; keep it a plain space so blank comparison is easy
DEC_GRAPHICS[0x5F] = " "

# name -> meaning.  Each mimics one deviation of urwid.vterm.TermCanvas from the VT100/xterm
# behaviour documented above (found by the C15 differential monitor).
QUIRKS = {
    "pending-wrap-survives-cursor-motion": "the last-column flag is NOT cleared by CUP/HVP/CUx/CHA/VPA/CR/BS/"
    "LF/erase/insert/delete; the next printable still wraps if the cursor is (again) in the last column at that time, "
    "otherwise the stale flag is dropped by that printable",
    "autowrap-below-region-scrolls-region": "an autowrap while the cursor is BELOW the bottom margin scrolls the region "
    "and keeps the row, instead of moving down one row",
    "il-removes-line-above-bottom-margin": "IL n: n times (insert a blank line at the cursor row, then delete the line "
    "that was just above the bottom margin instead of the bottom-margin line); at the bottom-margin row IL is a no-op",
    "ed1-el1-exclude-cursor-cell": "ED 1 and EL 1 erase up to but not including the cursor cell",
    "ed1-excludes-cursor-cell": "ED 1 erases the cursor row only up to but not including the cursor cell "
    "(except in column 0, where the cursor cell is erased)",
    "el1-excludes-cursor-cell": "EL 1 erases up to but not including the cursor cell",
    "width1-no-wrap": "on a 1-column terminal printing overwrites column 0 and never wraps",
    "width1-wrap-loses-pending": "on a 1-column terminal a glyph printed right after an autowrap does not set the "
    "last-column flag again, so the following glyph overwrites it (every second glyph is lost)",
    "ed-confined-to-region-in-origin-mode": "with DECOM set, ED 0 stops at the end of the bottom-margin row and ED 1 starts at "
    "the top-margin row (rows outside the scrolling region are not erased); ED 2 is unaffected",
    "cpr-absolute-in-origin-mode": "the cursor position report gives the absolute row even when DECOM is set",
    "g1-default-dec-graphics": "G1 is DEC special graphics after power-up / RIS / DECRC-without-save (linux console default; "
    "a VT100 / xterm starts with ASCII in G1), so SO without a prior ESC ) 0 already selects line drawing",
    "il-dl-keep-column": "IL / DL leave the cursor column unchanged (xterm behaviour)",
    "decstbm-no-home": "a valid DECSTBM does not move the cursor",
    "bs-at-pending-wrap-stays": "BS in the pending-wrap state only clears the flag, cursor stays on the last column",
    "lf-keeps-pending-wrap": "LF/VT/FF/IND/NEL/RI do not clear the last-column flag",
    "scrollback-saves-region-lines": "a line scrolled off the top of ANY scrolling region (also one not starting at row 0) is "
    "appended to the scrollback",
    "ich-dch-ignore-wide": "ICH/DCH do not repair split double-width characters",
}

_CP437_LOW = (
    "\x00☺☻♥♦♣♠•◘○◙♂♀♪♫☼"
    "►◄↕‼¶§▬↨↑↓→←∟↔▲▼"
)

# parser states
_GROUND, _ESC, _ESC_INT, _CSI, _CSI_IGN, _OSC, _STR, _OSC_ESC, _STR_ESC = range(9)


class VT:
    def __init__(
        self,
        cols,
        rows,
        *,
        utf8=True,
        bce=False,
        quirks=frozenset(),
        encoding="latin-1",
        c1=False,
        altfont_map="cp437",
        max_scrollback=10000,
        lock_utf8=False,
    ):
        if cols < 1 or rows < 1:
            raise ValueError("terminal size must be at least 1x1")
        quirks = frozenset(quirks)
        bad = quirks - set(QUIRKS)
        if bad:
            raise ValueError(f"unknown quirk(s): {sorted(bad)}")
        self.cols = cols
        self.rows = rows
        self.utf8 = utf8
        self._utf8_init = utf8
        self.lock_utf8 = lock_utf8
        self.bce = bce
        self.quirks = quirks
        self.encoding = encoding
        self.c1 = c1
        self.altfont_map = altfont_map
        self.max_scrollback = max_scrollback
        self.responses = []
        self.unknown = []
        self.scroll_count = 0
        self.scrollback = []
        self.bells = 0
        self.title = ""
        self.icon_title = ""
        # parser
        self._state = _GROUND
        self._params = ""
        self._inter = ""
        self._str = []
        self._strkind = ""
        self._u_need = 0  # continuation bytes still expected
        self._u_cp = 0
        self._u_lo = 0x80
        self._u_hi = 0xBF
        self._reset_state(hard=True)

    # ------------------------------------------------------------------ state
    def _reset_state(self, hard):
        self.x = 0
        self.y = 0
        self.pending_wrap = False
        self.style = BLANK
        self.altfont = False
        self.charsets = self._default_charsets()
        self.gl = 0
        self._ss = None
        self.top = 0
        self.bottom = self.rows - 1
        self.modes = {7, 25}
        self.ansi_modes = set()
        self.cursor_style = 0
        self._saved = None
        self._saved_alt = None
        self._last_graphic = None
        self.tabstops = list(range(8, self.cols, 8))
        if hard:
            self.utf8 = self._utf8_init
            self.alt_screen = False
            self._main = self._blank_grid(BLANK)
            self._alt = self._blank_grid(BLANK)
            self.cells = self._main

    def _blank_grid(self, cell):
        return [[cell] * self.cols for _ in range(self.rows)]

    # -- convenient read-only views
    @property
    def cursor(self):
        return (self.x, self.y)

    @property
    def cursor_visible(self):
        return 25 in self.modes

    @property
    def autowrap(self):
        return 7 in self.modes

    @property
    def origin_mode(self):
        return 6 in self.modes

    @property
    def insert_mode(self):
        return 4 in self.ansi_modes

    @property
    def newline_mode(self):
        return 20 in self.ansi_modes

    @property
    def scroll_region(self):
        return (self.top, self.bottom)

    @property
    def charset(self):
        return self.charsets[self.gl]

    def take_responses(self):
        r, self.responses = self.responses, []
        return r

    # ------------------------------------------------------------------ public helpers
    def resize(self, cols, rows, fill=None):
        if cols < 1 or rows < 1:
            raise ValueError("terminal size must be at least 1x1")
        oc, orr = self.cols, self.rows
        self.cols, self.rows = cols, rows

        def conv(grid):
            if fill is not None:
                return [[fill] * cols for _ in range(rows)]
            new = []
            for y in range(rows):
                if y < orr:
                    row = grid[y][:cols]
                    if len(row) < cols:
                        row = row + [BLANK] * (cols - len(row))
                    elif cols < oc and row[-1].wide == 1:
                        row[-1] = row[-1]._replace(ch=" ", wide=0)
                else:
                    row = [BLANK] * cols
                new.append(row)
            return new

        self._main = conv(self._main)
        self._alt = conv(self._alt)
        self.cells = self._alt if self.alt_screen else self._main
        self.top, self.bottom = 0, rows - 1
        self.x = min(self.x, cols - 1)
        self.y = min(self.y, rows - 1)
        self.pending_wrap = False
        self.tabstops = list(range(8, cols, 8))

    def fill_garbage(self, cell=GARBAGE):
        for grid in (self._main, self._alt):
            for y in range(self.rows):
                grid[y] = [cell] * self.cols

    def row_text(self, y):
        return "".join(c.ch for c in self.cells[y] if c.wide != 2)

    def text_rows(self):
        return [self.row_text(y) for y in range(self.rows)]

    def snapshot(self, attrs=True, cursor=True):
        if attrs:
            body = tuple(tuple(c.key() for c in row) for row in self.cells)
        else:
            body = tuple(tuple((c.ch, c.wide) for c in row) for row in self.cells)
        if cursor:
            return (body, self.x, self.y, self.cursor_visible)
        return body

    def dump(self):
        out = [f"cursor={self.cursor} pending_wrap={self.pending_wrap} region={self.scroll_region} alt={self.alt_screen}"]
        out += [f"{y:3d}|{self.row_text(y)}|" for y in range(self.rows)]
        return "\n".join(out)

    # ------------------------------------------------------------------ feeding
    def feed(self, data):
        if isinstance(data, str):
            data = data.encode("utf-8", "surrogateescape")
        for b in bytes(data):
            self._byte(b)

    def _byte(self, b):
        if self.utf8:
            need = self._u_need
            if need:
                if self._u_lo <= b <= self._u_hi:
                    self._u_cp = (self._u_cp << 6) | (b & 0x3F)
                    self._u_lo, self._u_hi = 0x80, 0xBF
                    self._u_need = need - 1
                    if need == 1:
                        self._char(self._u_cp)
                    return
                # truncated sequence: one replacement for the maximal subpart, then reprocess b
                self._u_need = 0
                self._char(0xFFFD)
            if b < 0x80:
                self._char(b)
            elif 0xC2 <= b <= 0xDF:
                self._u_need, self._u_cp, self._u_lo, self._u_hi = 1, b & 0x1F, 0x80, 0xBF
            elif 0xE0 <= b <= 0xEF:
                self._u_need, self._u_cp = 2, b & 0x0F
                self._u_lo, self._u_hi = (0xA0, 0xBF) if b == 0xE0 else ((0x80, 0x9F) if b == 0xED else (0x80, 0xBF))
            elif 0xF0 <= b <= 0xF4:
                self._u_need, self._u_cp = 3, b & 0x07
                self._u_lo, self._u_hi = (0x90, 0xBF) if b == 0xF0 else ((0x80, 0x8F) if b == 0xF4 else (0x80, 0xBF))
            else:
                self._char(0xFFFD)
        elif b < 0x80:
            self._char(b)
        elif b < 0xA0 and self.c1:
            self._char(b)
        else:
            try:
                ch = bytes((b,)).decode(self.encoding)
            except (UnicodeDecodeError, LookupError):
                ch = "�"
            cp = ord(ch[0]) if ch else 0xFFFD
            if 0x80 <= cp < 0xA0:
                return  # unprintable in an 8-bit set
            self._char(cp, raw=b)

    # ------------------------------------------------------------------ parser (code points)
    def _char(self, cp, raw=None):
        st = self._state
        # --- string states first (they swallow almost everything)
        if st in (_OSC, _STR):
            if cp == 0x1B:
                self._state = _OSC_ESC if st == _OSC else _STR_ESC
            elif cp == 0x07 and st == _OSC:
                self._end_string()
            elif cp in (0x18, 0x1A):
                self._state = _GROUND
            elif cp == 0x9C and self.c1:
                self._end_string()
            elif cp >= 0x20 and len(self._str) < 4096:
                self._str.append(chr(cp))
            return
        if st in (_OSC_ESC, _STR_ESC):
            if cp == 0x5C:  # ESC \ = ST
                self._end_string()
                return
            # any other ESC x: the string is cancelled and ESC x is interpreted
            self._state = _ESC
            self._inter = ""
            st = _ESC
            if cp == 0x1B:
                return
        # --- C0 anywhere outside strings
        if cp < 0x20:
            if cp == 0x1B:
                self._state = _ESC
                self._inter = ""
                self._params = ""
            elif cp in (0x18, 0x1A):
                self._state = _GROUND
            else:
                self._c0(cp)
            return
        if cp == 0x7F:
            return
        if 0x80 <= cp < 0xA0:
            if self.c1:
                self._c1(cp)
            return
        if st == _GROUND:
            self._print(cp, raw)
            return
        if cp >= 0x80:
            return  # non-ASCII inside a control sequence: ignored
        if st == _ESC:
            if 0x20 <= cp <= 0x2F:
                self._inter += chr(cp)
                self._state = _ESC_INT
            elif cp == 0x5B:  # [
                self._state = _CSI
                self._params = ""
                self._inter = ""
            elif cp == 0x5D:  # ]
                self._begin_string(_OSC, "]")
            elif cp in (0x50, 0x58, 0x5E, 0x5F):  # P X ^ _
                self._begin_string(_STR, chr(cp))
            else:
                self._state = _GROUND
                self._esc_dispatch("", chr(cp))
            return
        if st == _ESC_INT:
            if 0x20 <= cp <= 0x2F:
                if len(self._inter) < 8:
                    self._inter += chr(cp)
            else:
                self._state = _GROUND
                self._esc_dispatch(self._inter, chr(cp))
            return
        if st == _CSI:
            if 0x30 <= cp <= 0x3F:
                if self._inter:
                    self._state = _CSI_IGN  # parameter byte after an intermediate: malformed
                elif len(self._params) < 256:
                    self._params += chr(cp)
            elif 0x20 <= cp <= 0x2F:
                if len(self._inter) < 8:
                    self._inter += chr(cp)
            else:  # 0x40..0x7e final
                self._state = _GROUND
                self._csi_dispatch(self._params, self._inter, chr(cp))
            return
        if st == _CSI_IGN:
            if 0x40 <= cp <= 0x7E:
                self._state = _GROUND
            return

    def _begin_string(self, state, kind):
        self._state = state
        self._str = []
        self._strkind = kind

    def _end_string(self):
        self._state = _GROUND
        s = "".join(self._str)
        self._str = []
        if self._strkind == "]":
            num, sep, text = s.partition(";")
            if sep and num.isdigit():
                n = int(num[:6])
                if n in (0, 2):
                    self.title = text
                if n in (0, 1):
                    self.icon_title = text
                if n not in (0, 1, 2):
                    self._unk(("OSC", n))
            else:
                self._unk(("OSC", s[:16]))

    def _unk(self, what):
        if len(self.unknown) < 64:
            self.unknown.append(what)

    def _c1(self, cp):
        # 8-bit C1 = ESC + (cp - 0x40)
        if self._state in (_OSC, _STR) and cp == 0x9C:
            self._end_string()
            return
        self._state = _ESC
        self._inter = ""
        self._char(cp - 0x40)

    # ------------------------------------------------------------------ C0
    def _c0(self, cp):
        if cp == 0x07:
            self.bells += 1
        elif cp == 0x08:
            self._bs()
        elif cp == 0x09:
            self._tab(1)
        elif cp in (0x0A, 0x0B, 0x0C):
            self._index()
            if 20 in self.ansi_modes:
                self.x = 0
        elif cp == 0x0D:
            self.x = 0
            self._clear_wrap()
        elif cp == 0x0E:
            self.gl = 1
        elif cp == 0x0F:
            self.gl = 0

    def _clear_wrap(self):
        if "pending-wrap-survives-cursor-motion" not in self.quirks:
            self.pending_wrap = False

    def _bs(self):
        if self.pending_wrap:
            if "pending-wrap-survives-cursor-motion" in self.quirks:
                if self.x > 0:
                    self.x -= 1
                return
            self.pending_wrap = False
            if "bs-at-pending-wrap-stays" in self.quirks:
                return
        if self.x > 0:
            self.x -= 1

    def _tab(self, n):
        for _ in range(min(n, self.cols)):
            nxt = [t for t in self.tabstops if t > self.x]
            self.x = min(nxt[0], self.cols - 1) if nxt else self.cols - 1

    def _backtab(self, n):
        self._clear_wrap()
        for _ in range(min(n, self.cols)):
            prv = [t for t in self.tabstops if t < self.x]
            self.x = prv[-1] if prv else 0

    # ------------------------------------------------------------------ vertical motion / scrolling
    def _erase_cell(self):
        if self.bce and self.style.bg is not None:
            return Cell(bg=self.style.bg)
        return BLANK

    def _scroll_up(self, n=1, top=None, bottom=None, count=True):
        top = self.top if top is None else top
        bottom = self.bottom if bottom is None else bottom
        n = min(n, bottom - top + 1)
        g = self.cells
        blank = self._erase_cell()
        for _ in range(n):
            row = g.pop(top)
            if count and (top == 0 or "scrollback-saves-region-lines" in self.quirks) and not self.alt_screen:
                self.scrollback.append(row)
                if len(self.scrollback) > self.max_scrollback:
                    del self.scrollback[0]
            g.insert(bottom, [blank] * self.cols)
        if count:
            self.scroll_count += n

    def _scroll_down(self, n=1, top=None, bottom=None, count=True):
        top = self.top if top is None else top
        bottom = self.bottom if bottom is None else bottom
        n = min(n, bottom - top + 1)
        g = self.cells
        blank = self._erase_cell()
        for _ in range(n):
            g.pop(bottom)
            g.insert(top, [blank] * self.cols)
        if count:
            self.scroll_count += n

    def _index(self):
        """LF / IND: down one line, scrolling the region at the bottom margin"""
        if "lf-keeps-pending-wrap" not in self.quirks:
            self._clear_wrap()
        if self.y == self.bottom:
            self._scroll_up(1)
        elif self.y < self.rows - 1:
            self.y += 1

    def _reverse_index(self):
        if "lf-keeps-pending-wrap" not in self.quirks:
            self._clear_wrap()
        if self.y == self.top:
            self._scroll_down(1)
        elif self.y > 0:
            self.y -= 1

    def _up(self, n):
        self._clear_wrap()
        lim = self.top if self.y >= self.top else 0
        self.y = max(lim, self.y - n)

    def _down(self, n):
        self._clear_wrap()
        lim = self.bottom if self.y <= self.bottom else self.rows - 1
        self.y = min(lim, self.y + n)

    def _goto(self, row, col, absolute=False):
        """0-based row/col as given by CUP (already decremented); honours DECOM"""
        self._clear_wrap()
        if 6 in self.modes and not absolute:
            self.y = min(max(self.top + row, self.top), self.bottom)
        else:
            self.y = min(max(row, 0), self.rows - 1)
        self.x = min(max(col, 0), self.cols - 1)

    # ------------------------------------------------------------------ printing
    def _translate(self, cp, raw):
        if self.altfont and self.altfont_map:
            if self.altfont_map == "dec":
                if 0x5F <= cp <= 0x7E:
                    return DEC_GRAPHICS[cp]
            elif self.altfont_map == "cp437":
                b = raw if raw is not None else (cp if cp < 0x100 else None)
                if b is not None and b >= 0x80:
                    return bytes((b,)).decode("cp437")
                if b is not None and b < 0x20:
                    return _CP437_LOW[b]
            return chr(cp)
        if cp < 0x7F:
            if self._ss is not None:
                cs = self.charsets[self._ss]
                self._ss = None
            else:
                cs = self.charsets[self.gl]
            if cs == "0" and cp >= 0x5F:
                return DEC_GRAPHICS[cp]
            if cs == "A" and cp == 0x23:
                return "£"
        return chr(cp)

    def _print(self, cp, raw=None):
        ch = self._translate(cp, raw)
        w = _wcwidth(ch) if len(ch) == 1 else 1
        if w is None or w < 0:
            return
        if w == 0:
            self._combine(ch)
            return
        self._put(ch, w)
        self._last_graphic = (ch, w)

    def _combine(self, ch):
        x = self.x if self.pending_wrap else self.x - 1
        if x < 0:
            return
        row = self.cells[self.y]
        c = row[x]
        if c.wide == 2 and x > 0:
            x -= 1
            c = row[x]
        if c.garbage or len(c.ch) > 8:
            return
        row[x] = c._replace(ch=c.ch + ch, erased=False)

    def _fix_wide(self, row, x):
        """cell x is about to be overwritten / split: blank the other half of a wide char"""
        if not 0 <= x < self.cols:
            return
        c = row[x]
        if c.wide == 1 and x + 1 < self.cols and row[x + 1].wide == 2:
            row[x + 1] = row[x + 1]._replace(ch=" ", wide=0)
        elif c.wide == 2 and x > 0 and row[x - 1].wide == 1:
            row[x - 1] = row[x - 1]._replace(ch=" ", wide=0)

    def _break_wide_at(self, row, x):
        """the boundary between cells x-1 and x is about to separate: blank both halves of a wide char there"""
        if 0 < x < self.cols and row[x].wide == 2:
            row[x] = row[x]._replace(ch=" ", wide=0)
            if row[x - 1].wide == 1:
                row[x - 1] = row[x - 1]._replace(ch=" ", wide=0)

    def _put(self, ch, w):
        cols = self.cols
        if cols == 1 and "width1-no-wrap" in self.quirks:
            if w == 1:
                self.cells[self.y][0] = self.style._replace(ch=ch, wide=0, erased=False)
            return
        wrapped = False
        if self.pending_wrap:
            self.pending_wrap = False
            if self.x != cols - 1:
                pass  # only reachable with pending-wrap-survives-cursor-motion: stale flag, dropped
            elif 7 in self.modes:
                self.x = 0
                if self.y > self.bottom and "autowrap-below-region-scrolls-region" in self.quirks:
                    self._scroll_up(1)
                else:
                    self._index()
                wrapped = True
        if w == 2:
            if cols < 2:
                return
            if self.x == cols - 1:
                if 7 in self.modes:
                    self.x = 0
                    self._index()
                else:
                    self.x = cols - 2
        row = self.cells[self.y]
        x = self.x
        if 4 in self.ansi_modes:
            self._insert_blanks(w)
        self._fix_wide(row, x)
        if w == 2:
            self._fix_wide(row, x + 1)
            row[x] = self.style._replace(ch=ch, wide=1, erased=False)
            row[x + 1] = self.style._replace(ch="", wide=2, erased=False)
        else:
            row[x] = self.style._replace(ch=ch, wide=0, erased=False)
        x += w
        if x >= cols:
            self.x = cols - 1
            if 7 in self.modes and not (wrapped and cols == 1 and "width1-wrap-loses-pending" in self.quirks):
                self.pending_wrap = True
        else:
            self.x = x

    # ------------------------------------------------------------------ editing
    def _insert_blanks(self, n):
        row = self.cells[self.y]
        x = self.x
        n = min(n, self.cols - x)
        if n <= 0:
            return
        if "ich-dch-ignore-wide" not in self.quirks:
            self._break_wide_at(row, x)
        blank = self._erase_cell()
        row[x:x] = [blank] * n
        del row[self.cols :]
        if "ich-dch-ignore-wide" not in self.quirks and row[-1].wide == 1:
            row[-1] = row[-1]._replace(ch=" ", wide=0)

    def _delete_chars(self, n):
        row = self.cells[self.y]
        x = self.x
        n = min(n, self.cols - x)
        if n <= 0:
            return
        fix = "ich-dch-ignore-wide" not in self.quirks
        if fix:
            self._break_wide_at(row, x)
            self._break_wide_at(row, x + n)
        del row[x : x + n]
        row.extend([self._erase_cell()] * n)

    def _erase_chars(self, n):
        row = self.cells[self.y]
        x = self.x
        n = min(n, self.cols - x)
        self._erase_span(row, x, x + n)

    def _erase_span(self, row, a, b):
        """erase cells a..b-1"""
        if b <= a:
            return
        if row[a].wide == 2:
            self._fix_wide(row, a)
        if row[b - 1].wide == 1:
            self._fix_wide(row, b - 1)
        row[a:b] = [self._erase_cell()] * (b - a)

    def _el(self, mode):
        row = self.cells[self.y]
        if mode == 0:
            self._erase_span(row, self.x, self.cols)
        elif mode == 1:
            end = self.x + 1
            if self.quirks and ("ed1-el1-exclude-cursor-cell" in self.quirks or "el1-excludes-cursor-cell" in self.quirks):
                end = self.x
            self._erase_span(row, 0, end)
        elif mode == 2:
            self._erase_span(row, 0, self.cols)
        else:
            return
        self._clear_wrap()

    def _ed(self, mode):
        g = self.cells
        confined = 6 in self.modes and "ed-confined-to-region-in-origin-mode" in self.quirks
        if mode == 0:
            self._erase_span(g[self.y], self.x, self.cols)
            for y in range(self.y + 1, (self.bottom + 1) if confined else self.rows):
                g[y] = [self._erase_cell()] * self.cols
        elif mode == 1:
            for y in range(self.top if confined else 0, self.y):
                g[y] = [self._erase_cell()] * self.cols
            end = self.x + 1
            if self.quirks and "ed1-el1-exclude-cursor-cell" in self.quirks:
                end = self.x
            elif self.quirks and "ed1-excludes-cursor-cell" in self.quirks:
                end = self.x if self.x > 0 else 1
            self._erase_span(g[self.y], 0, end)
        elif mode == 2:
            for y in range(self.rows):
                g[y] = [self._erase_cell()] * self.cols
        elif mode == 3:
            del self.scrollback[:]
            return
        else:
            return
        self._clear_wrap()

    def _il(self, n):
        if not self.top <= self.y <= self.bottom:
            return
        if "il-removes-line-above-bottom-margin" in self.quirks:
            g = self.cells
            for _ in range(min(n, self.rows + 1)):
                g.insert(self.y, [self._erase_cell()] * self.cols)
                g.pop(self.bottom)
        else:
            self._scroll_down(n, top=self.y, bottom=self.bottom, count=False)
        self._clear_wrap()
        if "il-dl-keep-column" not in self.quirks:
            self.x = 0

    def _dl(self, n):
        if not self.top <= self.y <= self.bottom:
            return
        self._scroll_up(n, top=self.y, bottom=self.bottom, count=False)
        self._clear_wrap()
        if "il-dl-keep-column" not in self.quirks:
            self.x = 0

    # ------------------------------------------------------------------ save / restore, screens
    def _default_charsets(self):
        if "g1-default-dec-graphics" in self.quirks:
            return ["B", "0", "B", "B"]
        return ["B", "B", "B", "B"]

    def _save_cursor(self):
        s = (self.x, self.y, self.pending_wrap, self.style, self.altfont, list(self.charsets), self.gl, 6 in self.modes)
        if self.alt_screen:
            self._saved_alt = s
        else:
            self._saved = s

    def _restore_cursor(self):
        s = self._saved_alt if self.alt_screen else self._saved
        if s is None:
            self.x = self.y = 0
            self.pending_wrap = False
            self.style = BLANK
            self.altfont = False
            self.charsets = self._default_charsets()
            self.gl = 0
            self.modes.discard(6)
            return
        keep = self.pending_wrap
        self.x, self.y, self.pending_wrap, self.style, self.altfont, cs, self.gl, om = s
        if "pending-wrap-survives-cursor-motion" in self.quirks:
            self.pending_wrap = keep  # the flag is neither saved nor restored there
        self.charsets = list(cs)
        self.x = min(self.x, self.cols - 1)
        self.y = min(self.y, self.rows - 1)
        if om:
            self.modes.add(6)
        else:
            self.modes.discard(6)

    def _enter_alt(self, clear):
        if not self.alt_screen:
            self.alt_screen = True
            self.cells = self._alt
        if clear:
            for y in range(self.rows):
                self._alt[y] = [BLANK] * self.cols

    def _leave_alt(self, clear):
        if self.alt_screen:
            if clear:
                for y in range(self.rows):
                    self._alt[y] = [BLANK] * self.cols
            self.alt_screen = False
            self.cells = self._main

    # ------------------------------------------------------------------ ESC dispatch
    def _esc_dispatch(self, inter, final):
        if inter == "":
            if final == "7":
                self._save_cursor()
            elif final == "8":
                self._restore_cursor()
            elif final == "D":
                self._index()
            elif final == "E":
                self._index()
                self.x = 0
            elif final == "M":
                self._reverse_index()
            elif final == "H":
                if self.x not in self.tabstops:
                    self.tabstops = sorted([*self.tabstops, self.x])
            elif final == "c":
                self._reset_state(hard=True)
            elif final == "Z":
                self.responses.append(b"\x1b[?1;2c")
            elif final == "N":
                self._ss = 2
            elif final == "O":
                self._ss = 3
            elif final == "n":
                self.gl = 2
            elif final == "o":
                self.gl = 3
            elif final in "=>":
                (self.modes.add if final == "=" else self.modes.discard)(66)  # DECNKM
            elif final == "\\":
                pass  # stray ST
            else:
                self._unk(("ESC", final))
            return
        if inter in ("(", ")", "*", "+", "-", ".", "/"):
            idx = {"(": 0, ")": 1, "*": 2, "+": 3, "-": 1, ".": 2, "/": 3}[inter]
            self.charsets[idx] = final
            return
        if inter == "#":
            if final == "8":
                e = Cell(ch="E", erased=False)
                for y in range(self.rows):
                    self.cells[y] = [e] * self.cols
                self.top, self.bottom = 0, self.rows - 1
                self.x = self.y = 0
                self.pending_wrap = False
            return
        if inter == "%":
            if final in "G8":
                self.utf8 = True
            elif final == "@" and not self.lock_utf8:
                self.utf8 = False
                self._u_need = 0
            return
        if inter == " ":
            return  # S7C1T / S8C1T / ANSI conformance levels
        self._unk(("ESC", inter, final))

    # ------------------------------------------------------------------ CSI dispatch
    @staticmethod
    def _parse_params(s):
        """'1;;3:4' -> [[1],[None],[3,4]] ; values capped at MAXPARAM"""
        out = []
        for part in s.split(";"):
            sub = []
            for q in part.split(":"):
                if q == "":
                    sub.append(None)
                else:
                    v = 0
                    for d in q[:12]:
                        v = v * 10 + (ord(d) - 48)
                    sub.append(min(v, MAXPARAM))
            out.append(sub)
        return out

    def _csi_dispatch(self, params, inter, final):
        prefix = ""
        if params and params[0] in "<=>?":
            prefix = params[0]
            params = params[1:]
        if any(c in "<=>?" for c in params):
            return  # malformed: private marker not in first position
        plist = self._parse_params(params)
        flat = [p[0] for p in plist]

        def arg(i, default=1):
            v = flat[i] if i < len(flat) else None
            return default if not v else v  # 0 and missing -> default

        def arg0(i):
            v = flat[i] if i < len(flat) else None
            return v or 0

        if prefix == "?":
            if inter == "" and final in "hl":
                for v in flat:
                    if v is not None:
                        self._private_mode(v, final == "h")
            elif inter == "" and final == "J":
                self._ed(arg0(0))
            elif inter == "" and final == "K":
                self._el(arg0(0))
            elif inter == "" and final == "n":
                if arg0(0) == 6:
                    self._report_cursor(b"?")
            else:
                self._unk(("CSI", prefix, params, inter, final))
            return
        if prefix == ">":
            if inter == "" and final == "c" and arg0(0) == 0:
                self.responses.append(b"\x1b[>0;95;0c")
            else:
                self._unk(("CSI", prefix, params, inter, final))
            return
        if prefix:
            self._unk(("CSI", prefix, params, inter, final))
            return
        if inter:
            if inter == " " and final == "q":
                self.cursor_style = arg0(0)
            elif inter == "!" and final == "p":
                self._soft_reset()
            else:
                self._unk(("CSI", prefix, params, inter, final))
            return

        f = final
        if f == "m":
            self._sgr(plist)
        elif f in "Hf":
            self._goto(arg(0) - 1, arg(1) - 1)
        elif f == "A":
            self._up(arg(0))
        elif f in "Be":
            self._down(arg(0))
        elif f in "Ca":
            self._clear_wrap()
            self.x = min(self.cols - 1, self.x + arg(0))
        elif f == "D":
            n = arg(0)
            if self.pending_wrap and "pending-wrap-survives-cursor-motion" not in self.quirks:
                self.pending_wrap = False
            self.x = max(0, self.x - n)
        elif f == "E":
            self._down(arg(0))
            self.x = 0
        elif f == "F":
            self._up(arg(0))
            self.x = 0
        elif f in "G`":
            self._clear_wrap()
            self.x = min(self.cols - 1, arg(0) - 1)
        elif f == "d":
            self._goto(arg(0) - 1, self.x)
        elif f == "J":
            self._ed(arg0(0))
        elif f == "K":
            self._el(arg0(0))
        elif f == "@":
            self._insert_blanks(arg(0))
            self._clear_wrap()
        elif f == "P":
            self._delete_chars(arg(0))
            self._clear_wrap()
        elif f == "X":
            self._erase_chars(arg(0))
            self._clear_wrap()
        elif f == "L":
            self._il(arg(0))
        elif f == "M":
            self._dl(arg(0))
        elif f == "S":
            self._scroll_up(arg(0))
        elif f == "T":
            if len(flat) <= 1:
                self._scroll_down(arg(0))
        elif f == "I":
            self._tab(arg(0))
        elif f == "Z":
            self._backtab(arg(0))
        elif f == "g":
            v = arg0(0)
            if v == 0:
                self.tabstops = [t for t in self.tabstops if t != self.x]
            elif v == 3:
                self.tabstops = []
        elif f == "b":
            if self._last_graphic is not None:
                ch, w = self._last_graphic
                for _ in range(min(arg(0), self.cols * self.rows)):
                    self._put(ch, w)
        elif f in "hl":
            for v in flat:
                if v in (4, 20):
                    (self.ansi_modes.add if f == "h" else self.ansi_modes.discard)(v)
                elif v is not None:
                    self._unk(("SM" if f == "h" else "RM", v))
        elif f == "r":
            self._decstbm(flat)
        elif f == "n":
            v = arg0(0)
            if v == 5:
                self.responses.append(b"\x1b[0n")
            elif v == 6:
                self._report_cursor(b"")
        elif f == "c":
            if arg0(0) == 0:
                self.responses.append(b"\x1b[?1;2c")
        elif f == "s":
            if params == "":
                self._save_cursor()
        elif f == "u":
            if params == "":
                self._restore_cursor()
        else:
            self._unk(("CSI", prefix, params, inter, final))

    def _report_cursor(self, prefix):
        y = self.y - self.top if (6 in self.modes and "cpr-absolute-in-origin-mode" not in self.quirks) else self.y
        self.responses.append(b"\x1b[" + prefix + f"{y + 1};{self.x + 1}R".encode())

    def _decstbm(self, flat):
        top = (flat[0] if len(flat) > 0 else None) or 1
        bot = (flat[1] if len(flat) > 1 else None) or self.rows
        bot = min(bot, self.rows)
        if top >= bot:
            return
        self.top, self.bottom = top - 1, bot - 1
        if "decstbm-no-home" in self.quirks:
            return
        self._goto(0, 0)

    def _soft_reset(self):
        self.modes.add(25)
        self.modes.discard(6)
        self.modes.add(7)
        self.ansi_modes.discard(4)
        self.top, self.bottom = 0, self.rows - 1
        self.style = BLANK
        self.altfont = False
        self.charsets = self._default_charsets()
        self.gl = 0
        self._saved = self._saved_alt = None

    def _private_mode(self, v, on):
        if v in (47, 1047):
            if on:
                self._enter_alt(clear=False)
            else:
                self._leave_alt(clear=(v == 1047))
        elif v == 1048:
            if on:
                self._save_cursor()
            else:
                self._restore_cursor()
        elif v == 1049:
            if on:
                if not self.alt_screen:
                    self._save_cursor()
                self._enter_alt(clear=True)
            else:
                was = self.alt_screen
                self._leave_alt(clear=False)
                if was:
                    self._restore_cursor()
        elif v == 6:
            (self.modes.add if on else self.modes.discard)(6)
            self._goto(0, 0)
            return
        elif v == 3:
            pass  # DECCOLM: recorded only, no resize / clear (xterm needs allowColumn to honour it)
        (self.modes.add if on else self.modes.discard)(v)

    # ------------------------------------------------------------------ SGR
    def _sgr(self, plist):
        st = self.style
        i = 0
        n = len(plist)
        while i < n:
            sub = plist[i]
            p = sub[0] or 0
            i += 1
            if p == 0:
                st = BLANK
                self.altfont = self.altfont  # SGR 0 does not change the font mapping
            elif p == 1:
                st = st._replace(bold=True)
            elif p == 2:
                st = st._replace(dim=True)
            elif p == 3:
                st = st._replace(italics=True)
            elif p == 4:
                st = st._replace(underline=not (len(sub) > 1 and sub[1] == 0))
            elif p in (5, 6):
                st = st._replace(blink=True)
            elif p == 7:
                st = st._replace(reverse=True)
            elif p == 9:
                st = st._replace(strikethrough=True)
            elif p == 10:
                self.altfont = False
            elif p in (11, 12):
                self.altfont = True
            elif p == 21:
                st = st._replace(underline=True)
            elif p == 22:
                st = st._replace(bold=False, dim=False)
            elif p == 23:
                st = st._replace(italics=False)
            elif p == 24:
                st = st._replace(underline=False)
            elif p == 25:
                st = st._replace(blink=False)
            elif p == 27:
                st = st._replace(reverse=False)
            elif p == 29:
                st = st._replace(strikethrough=False)
            elif 30 <= p <= 37:
                st = st._replace(fg=p - 30)
            elif 40 <= p <= 47:
                st = st._replace(bg=p - 40)
            elif p == 39:
                st = st._replace(fg=None)
            elif p == 49:
                st = st._replace(bg=None)
            elif 90 <= p <= 97:
                st = st._replace(fg=p - 90 + 8)
            elif 100 <= p <= 107:
                st = st._replace(bg=p - 100 + 8)
            elif p in (38, 48):
                if len(sub) > 1:  # colon form, self-contained
                    col = self._ext_colour_colon(sub[1:])
                    ok = True
                else:
                    col, used, ok = self._ext_colour_semi(plist, i)
                    i += used
                if col is not None:
                    st = st._replace(fg=col) if p == 38 else st._replace(bg=col)
                if not ok:
                    break
            # 8 (conceal), 28, 26, 50+ ...: ignored
        self.style = st._replace(ch=" ", wide=0, erased=True, garbage=False)

    @staticmethod
    def _ext_colour_colon(sub):
        kind = sub[0]
        if kind == 5 and len(sub) >= 2:
            v = sub[1]
            return v if v is not None and 0 <= v <= 255 else None
        if kind == 2:
            rest = sub[1:]
            if len(rest) >= 4:  # 2:<colourspace>:r:g:b
                rest = rest[1:4]
            if len(rest) == 3 and all(v is not None and 0 <= v <= 255 for v in rest):
                return tuple(rest)
        return None

    @staticmethod
    def _ext_colour_semi(plist, i):
        """returns (colour|None, params consumed, continue?)"""
        n = len(plist)
        if i >= n:
            return None, 0, False
        kind = plist[i][0]
        if kind == 5:
            if i + 1 >= n:
                return None, 1, False
            v = plist[i + 1][0] or 0
            return (v if 0 <= v <= 255 else None), 2, True
        if kind == 2:
            if i + 3 >= n:
                return None, n - i, False
            rgb = tuple((plist[i + k][0] or 0) for k in (1, 2, 3))
            return (rgb if all(0 <= v <= 255 for v in rgb) else None), 4, True
        return None, 0, False


# ====================================================================== self-test
def _selftest():
    import random

    n = [0]

    def ok(cond, what):
        n[0] += 1
        if not cond:
            raise AssertionError(what)

    def mk(data, cols=10, rows=4, **kw):
        v = VT(cols, rows, **kw)
        v.feed(data)
        return v

    v = mk(b"hello")
    ok(v.text_rows()[0] == "hello     " and v.cursor == (5, 0), "plain text")
    ok(v.cells[0][0].erased is False and v.cells[0][5].erased is True, "erased marker")
    v = mk(b"0123456789")
    ok(v.cursor == (9, 0) and v.pending_wrap, "pending wrap at last column")
    v.feed(b"a")
    ok(v.cursor == (1, 1) and v.row_text(1)[0] == "a" and not v.pending_wrap, "wrap on next printable")
    v = mk(b"0123456789\rX")
    ok(v.cursor == (1, 0) and v.row_text(0) == "X123456789", "CR clears pending wrap")
    v = mk(b"0123456789\x1b[1;10HX")
    ok(v.cursor == (9, 0) and v.row_text(0) == "012345678X" and v.pending_wrap, "CUP clears pending wrap")
    v = mk(b"0123456789\x08X")
    ok(v.row_text(0) == "01234567X9" and v.cursor == (9, 0) and not v.pending_wrap, "BS from pending wrap")
    v = mk(b"0123456789\x1b[?7l0123456789ab")
    ok(v.row_text(0) == "012345678b" and v.cursor == (9, 0) and not v.pending_wrap and 7 not in v.modes, "DECAWM off")
    v = mk(b"a\nb\r\nc")
    ok(v.text_rows()[:3] == ["a         ", " b        ", "c         "] and v.cursor == (1, 2), "LF / CRLF")
    v = mk(b"1\r\n2\r\n3\r\n4\r\n5")
    ok(v.text_rows() == ["2         ", "3         ", "4         ", "5         "], "scroll at bottom")
    ok(v.scroll_count == 1 and len(v.scrollback) == 1 and "".join(c.ch for c in v.scrollback[0]).strip() == "1", "scrollback")
    v = mk(b"\x1b[2;3r")
    ok(v.scroll_region == (1, 2) and v.cursor == (0, 0), "DECSTBM homes")
    v.feed(b"\x1b[1;1Ht\x1b[2;1Ha\r\nb\r\nc\x1b[4;1Hz")
    ok(v.text_rows() == ["t         ", "b         ", "c         ", "z         "] and v.scroll_count == 1, "region scroll")
    ok(v.scrollback == [], "no scrollback from a region not starting at row 0")
    v.feed(b"\x1b[2;1H\x1bM")
    ok(v.text_rows() == ["t         ", "          ", "b         ", "z         "], "RI at top margin")
    v.feed(b"\x1b[3;2r")
    ok(v.scroll_region == (1, 2), "invalid DECSTBM ignored")
    v.feed(b"\x1b[r")
    ok(v.scroll_region == (0, 3), "DECSTBM reset")
    v = mk(b"\x1b[3;5Hx\x1b[A\x1b[2Dy\x1b[Bz\x1b[10Cw\x1b[99Dq")
    ok(v.row_text(1) == "   y      " and v.row_text(2) == "q   z    w", "CUU/CUB/CUD/CUF + CUB clamp")
    v = mk(b"\x1b[99;99H")
    ok(v.cursor == (9, 3), "CUP clamps")
    v = mk(b"\x1b[0;0H")
    ok(v.cursor == (0, 0), "CUP 0;0 = 1;1")
    v = mk(b"\x1b[;5f")
    ok(v.cursor == (4, 0), "HVP missing row")
    v = mk(b"abcdefghij\x1b[1;4H\x1b[K")
    ok(v.row_text(0) == "abc       ", "EL 0")
    v = mk(b"abcdefghij\x1b[1;4H\x1b[1K")
    ok(v.row_text(0) == "    efghij", "EL 1 inclusive")
    v = mk(b"abcdefghij\x1b[1;4H\x1b[2K")
    ok(v.row_text(0) == " " * 10 and v.cursor == (3, 0), "EL 2")
    v = mk(b"aaaaaaaaaa\r\nbbbbbbbbbb\r\ncccccccccc\x1b[2;4H\x1b[J")
    ok(v.text_rows()[:3] == ["aaaaaaaaaa", "bbb       ", "          "], "ED 0")
    v = mk(b"aaaaaaaaaa\r\nbbbbbbbbbb\r\ncccccccccc\x1b[2;4H\x1b[1J")
    ok(v.text_rows()[:3] == ["          ", "    bbbbbb", "cccccccccc"], "ED 1 inclusive")
    v = mk(b"aaaaaaaaaa\r\nbbbbbbbbbb\x1b[2J")
    ok(v.text_rows() == [" " * 10] * 4 and v.cursor == (9, 1), "ED 2 keeps cursor")
    v = mk(b"abcdef\x1b[1;2H\x1b[2@")
    ok(v.row_text(0) == "a  bcdef  " and v.cursor == (1, 0), "ICH")
    v = mk(b"abcdefghij\x1b[1;2H\x1b[3P")
    ok(v.row_text(0) == "aefghij   ", "DCH")
    v = mk(b"abcdefghij\x1b[1;2H\x1b[3X")
    ok(v.row_text(0) == "a   efghij", "ECH")
    v = mk(b"a\r\nb\r\nc\r\nd\x1b[2;3H\x1b[L")
    ok(v.text_rows() == ["a         ", "          ", "b         ", "c         "] and v.cursor == (0, 1), "IL")
    v = mk(b"a\r\nb\r\nc\r\nd\x1b[2;3H\x1b[M")
    ok(v.text_rows() == ["a         ", "c         ", "d         ", "          "], "DL")
    ok(v.scroll_count == 0, "IL/DL do not count as scroll")
    v = mk(b"abc\x1b[4h\x1b[1;1HXY\x1b[4lZ")
    ok(v.row_text(0) == "XYZbc     " and not v.insert_mode, "IRM")
    v = mk(b"\x1b[1;31;42mA\x1b[0mB\x1b[38;5;200;48;2;1;2;3mC\x1b[39;49mD\x1b[91;104mE")
    c = v.cells[0]
    ok(c[0].fg == 1 and c[0].bg == 2 and c[0].bold and not c[1].bold and c[1].fg is None, "SGR basic")
    ok(c[2].fg == 200 and c[2].bg == (1, 2, 3) and c[3].fg is None and c[3].bg is None, "SGR 256 / rgb")
    ok(c[4].fg == 9 and c[4].bg == 12, "SGR bright")
    v = mk(b"\x1b[3;4;5;7;9mA\x1b[23;24;25;27;29mB\x1b[1;2mC\x1b[22mD\x1b[38:5:77mE\x1b[38:2::9:8:7mF\x1b[mG")
    c = v.cells[0]
    ok(c[0].italics and c[0].underline and c[0].blink and c[0].reverse and c[0].strikethrough, "SGR flags on")
    ok(c[1].style() == BLANK.style() and c[2].bold and c[2].dim and not c[3].bold and not c[3].dim, "SGR flags off")
    ok(c[4].fg == 77 and c[5].fg == (9, 8, 7) and c[6].fg is None, "SGR colon forms")
    v = mk(b"\x1b[38;2;999;0;0mA\x1b[38;5;300mB\x1b[38mC\x1b[38;2;1mD")
    ok(all(x.fg is None for x in v.cells[0][:4]) and v.row_text(0)[:4] == "ABCD", "SGR malformed extended colours ignored")
    v = mk(b"\x1b)0a\x0eqa\x0fq\x1b(0x\x1b(Bx")
    ok(v.row_text(0)[:6] == "a─▒q│x" and v.charsets[:2] == ["B", "0"] and v.gl == 0, "DEC graphics via SO/SI and ESC ( 0")
    v = mk(b"\x1b[11m\xc4\x1b[10m\xc4", utf8=False)
    ok(v.row_text(0)[:2] == "─Ä", "SGR 11 alt font cp437 / SGR 10")
    v = mk("漢字".encode())
    ok(v.cells[0][0].wide == 1 and v.cells[0][1].wide == 2 and v.cursor == (4, 0) and v.row_text(0) == "漢字      ", "wide chars")
    v = mk(b"123456789" + "漢".encode())
    ok(v.row_text(0) == "123456789 " and v.row_text(1)[0] == "漢" and v.cursor == (2, 1), "wide char wraps at last column")
    v = mk("漢".encode() + b"\x1b[1;2Hx")
    ok(v.row_text(0)[:2] == " x" and v.cells[0][0].wide == 0, "overwriting trailing half blanks the lead")
    v = mk("éx".encode())
    ok(v.cells[0][0].ch == "é" and v.cursor == (2, 0), "combining attaches")
    v = mk(b"\xe6\xbc")
    v.feed(b"\xa2")
    ok(v.row_text(0)[0] == "漢", "utf-8 split across feeds")
    v = mk(b"\xe6\xbcA\xff\x80\xc0\xafB")
    ok(v.row_text(0).rstrip() == "�A����B", "invalid utf-8 -> U+FFFD per maximal subpart")
    v = mk(b"\xd0\xb6\x1b%G\xd0\xb6\x1b%@\xd0\xb6\x1b%8\xd0\xb6\x1bc\xd0\xb6", utf8=False, cols=12)
    ok(v.row_text(0).rstrip() == "Ð¶" and not v.utf8, "RIS restores the 8-bit set")
    v = mk(b"\xd0\xb6\x1b%G\xd0\xb6\x1b%@\xd0\xb6\x1b%8\xd0\xb6", utf8=False, cols=12)
    ok(v.row_text(0).rstrip() == "Ð¶жÐ¶ж" and v.utf8, "ESC % G / ESC % @ / ESC % 8 switch the main character set")
    v = mk(b"\x1b%@\xd0\xb6", utf8=True, lock_utf8=True)
    ok(v.row_text(0)[0] == "ж", "lock_utf8 ignores ESC % @")
    v = mk(b"\xe9A", utf8=False)
    ok(v.row_text(0)[:2] == "éA", "8-bit mode latin-1")
    v = mk(b"\x1b[5n\x1b[3;4H\x1b[6n\x1b[c\x1b[0c\x1bZ\x1b[>c")
    ok(v.responses == [b"\x1b[0n", b"\x1b[3;4R", b"\x1b[?1;2c", b"\x1b[?1;2c", b"\x1b[?1;2c", b"\x1b[>0;95;0c"], "DSR / DA")
    ok(v.take_responses() and v.responses == [], "take_responses")
    v = mk(b"\x1b[2;3r\x1b[?6h\x1b[1;1Hx\x1b[6n")
    ok(v.row_text(1)[0] == "x" and v.responses == [b"\x1b[1;2R"] and v.origin_mode, "DECOM")
    v = mk(b"a\r\nb\r\nc\r\nd\x1b[2;3r\x1b[?6h\x1b[J\x1b[6n", quirks={"ed-confined-to-region-in-origin-mode", "cpr-absolute-in-origin-mode"})
    ok([r[0] for r in v.text_rows()] == ["a", " ", " ", "d"] and v.responses == [b"\x1b[2;1R"], "quirks ED confined / CPR absolute in origin mode")
    v = mk(b"a\r\nb\r\nc\r\nd\x1b[2;3r\x1b[?6h\x1b[J\x1b[6n")
    ok([r[0] for r in v.text_rows()] == ["a", " ", " ", " "] and v.responses == [b"\x1b[1;1R"], "ED 0 ignores margins, CPR relative in origin mode")
    v = mk(b"\x0eq\x0fq\x1bc\x0eq", quirks={"g1-default-dec-graphics"})
    ok(v.row_text(0)[:1] == "─" and v.gl == 1 and mk(b"\x0eq").row_text(0)[0] == "q", "quirk g1-default-dec-graphics")
    v = mk(b"ab\x1b7\x1b8\x0eq\x1b8cd", quirks={"g1-default-dec-graphics"})
    ok(v.row_text(0)[:5] == "abcd " and v.gl == 0 and v.cursor == (4, 0), "a second DECRC restores cursor and shift state again")
    v = mk(b"\x1b[31m\x1b)0\x1b7\x1b[32m\x0e\x1b8q\x1b[34m\x0e\x1b8q")
    ok(v.row_text(0)[:2] == "q " and v.cells[0][0].fg == 1 and v.cursor == (1, 0) and v.gl == 0, "DECRC twice restores SGR and GL twice")
    v = mk(b"hello\x1bc\x1b[2;5HX", cols=5, rows=3)
    ok(v.row_text(1) == "    X" and v.cursor == (4, 1) and v.pending_wrap, "RIS clears the pending-wrap flag")
    v = mk(b"\x1b]0;hi there\x07A\x1b]2;t2\x1b\\B\x1b]1;icon\x07")
    ok(v.title == "t2" and v.icon_title == "icon" and v.row_text(0)[:2] == "AB", "OSC BEL / ST")
    v = mk(b"\x1bPabc\x1b\\X\x1b_zz\x1b\\Y\x1b^q\x1b\\Z\x1bXs\x1b\\W")
    ok(v.row_text(0)[:4] == "XYZW", "DCS/APC/PM/SOS consumed")
    v = mk(b"\x1b[?25l\x1b[?1000h\x1b[?1002h\x1b[?1006h\x1b[?2004h\x1b[?1004h")
    ok(not v.cursor_visible and {1000, 1002, 1006, 2004, 1004} <= v.modes, "private modes recorded")
    v.feed(b"\x1b[?1006;1002;1000l\x1b[?25h")
    ok(v.cursor_visible and not ({1000, 1002, 1006} & v.modes), "private modes reset (multi-param)")
    v = mk(b"main\x1b[?1049hALT")
    ok(v.alt_screen and v.row_text(0) == "    ALT   ", "1049 enter: cleared alt screen, cursor kept")
    ok(v.alt_screen and 1049 in v.modes, "1049 flag")
    v.feed(b"\x1b[?1049l")
    ok(not v.alt_screen and v.row_text(0)[:4] == "main" and v.cursor == (4, 0), "1049 leave restores screen+cursor")
    v = mk(b"ab\x1b7\x1b[31m\x1b[3;3Hc\x1b8d")
    ok(v.row_text(0)[:3] == "abd" and v.cells[0][2].fg is None, "DECSC / DECRC")
    v = mk(b"\x1b[1;2;3;4;5;6;7;8;9;10;11;12;13;14;15;16;17;18;19;20zA\x1b[?>5hB\x1b[1 zC\x1b[1$}D\x1b[=1cE")
    ok(v.row_text(0)[:5] == "ABCDE", "unknown CSI consumed silently")
    v = mk(b"\x1b[1\x0d;5HX")
    ok(v.cursor == (5, 0), "C0 inside CSI executed, sequence continues")
    v = mk(b"\x1b[5\x18A")
    ok(v.row_text(0)[0] == "A" and v.cursor == (1, 0), "CAN aborts CSI")
    v = mk(b"\x1b[2\x1b[1;3HZ")
    ok(v.row_text(0)[:3] == "  Z", "ESC restarts a sequence")
    v = mk(b"\tA\tB\x1b[3gC\x1b[1;1H\tD", cols=20)
    ok(v.row_text(0)[8] == "A" and v.row_text(0)[16] == "B" and v.row_text(0)[19] == "D", "tabs")
    v = mk(b"\x1b#8")
    ok(v.text_rows() == ["E" * 10] * 4, "DECALN")
    v = mk(b"ab\x1bcX")
    ok(v.text_rows()[0] == "X         ", "RIS")
    v = mk(b"x\x1b[3b")
    ok(v.row_text(0)[:4] == "xxxx", "REP")
    v = mk(b"a\r\nb\r\nc\r\nd\x1b[2S")
    ok(v.text_rows() == ["c         ", "d         ", "          ", "          "] and v.scroll_count == 2, "SU")
    v = mk(b"a\x1b[T")
    ok(v.text_rows()[:2] == ["          ", "a         "], "SD")
    v = mk(b"\x1b[44m\x1b[K", bce=True)
    ok(v.cells[0][0].bg == 4 and v.cells[0][0].erased, "BCE on")
    v = mk(b"\x1b[44m\x1b[K", bce=False)
    ok(v.cells[0][0].bg is None, "BCE off")
    v = mk(b"\x1b[100000;100000H\x1b[100000@\x1b[100000L\x1b[99999999999999999999A")
    ok(v.cursor == (0, 0), "huge params")
    v = mk(b"ab", cols=1, rows=2)
    ok(v.text_rows() == ["a", "b"] and v.cursor == (0, 1) and v.pending_wrap, "1-column terminal wraps")
    v = mk(b"abc", cols=1, rows=2)
    ok(v.text_rows() == ["b", "c"], "1-column terminal scrolls")
    v = mk(b"ab", cols=1, rows=2, quirks={"width1-no-wrap"})
    ok(v.text_rows() == ["b", " "], "quirk width1-no-wrap")
    v = mk(b"0123456789\x1b[1;10HX", quirks={"pending-wrap-survives-cursor-motion"})
    ok(v.row_text(1)[0] == "X" and v.row_text(0) == "0123456789", "quirk pending-wrap-survives-cursor-motion")
    v = mk(b"0123456789\x1b[1;1HXY", quirks={"pending-wrap-survives-cursor-motion"})
    ok(v.row_text(0) == "XY23456789" and v.row_text(1)[0] == " ", "quirk pending-wrap: stale flag dropped away from the last column")
    v = mk(b"a\r\nb\r\nc\r\nd\x1b[2;1H\x1b[L", quirks={"il-removes-line-above-bottom-margin"})
    ok([r[0] for r in v.text_rows()] == ["a", " ", "b", "d"], "quirk il-removes-line-above-bottom-margin")
    v = mk(b"\x1b[1;2r\x1b[3;10Hxy", cols=10, rows=4, quirks={"autowrap-below-region-scrolls-region"})
    ok(v.cursor == (1, 2) and v.row_text(2)[0] == "y", "quirk autowrap-below-region-scrolls-region")
    v = mk(b"abcdefghij\x1b[1;4H\x1b[1K", quirks={"el1-excludes-cursor-cell"})
    ok(v.row_text(0) == "   defghij", "quirk el1-excludes-cursor-cell")
    try:
        VT(3, 3, quirks={"nope"})
        ok(False, "unknown quirk accepted")
    except ValueError:
        ok(True, "")
    v = mk(b"hello\r\nworld")
    v.resize(4, 2)
    ok(v.text_rows() == ["hell", "worl"] and v.cursor == (3, 1) and v.scroll_region == (0, 1), "resize shrink")
    v.resize(6, 3, fill=GARBAGE)
    ok(all(c.garbage for r in v.cells for c in r) and len(v.cells) == 3 and len(v.cells[0]) == 6, "resize fill garbage")
    v.feed(b"\x1b[H\x1b[2J")
    ok(not any(c.garbage for r in v.cells for c in r), "ED 2 removes garbage")
    s1 = mk(b"\x1b[31mab").snapshot()
    s2 = mk(b"\x1b[31ma\x1b[31mb").snapshot()
    ok(s1 == s2 and hash(s1) == hash(s2) and s1 != mk(b"\x1b[32mab").snapshot(), "snapshot")

    # chunking invariance + totality on garbage
    rng = random.Random(1)
    alphabet = [b"\x1b", b"[", b"]", b"?", b";", b":", b"0", b"1", b"9", b"m", b"H", b"J", b"K", b"r", b"h", b"l", b"\x07", b"\\", b"(", b")", b"0",
                b"\n", b"\r", b"\x08", b"\t", b"\x0e", b"\x0f", b"\x18", b"\x9b", b"\xe6", b"\xbc", b"\xa2", b"\xff", b"a", b"Z", b" ", b"@", b"P", b"L", b"M",
                b"X", b"\x1b[38;2;", b"\x1b[?1049h", b"\x1b[?6h", b"\x1b[4h", b"\x1bM", b"\x1bD", b"\x1b7", b"\x1b8", b"\x1b#8", b"99999", "漢".encode(), "́".encode()]
    for it in range(1500):
        data = b"".join(rng.choice(alphabet) for _ in range(rng.randint(1, 60)))
        cols, rows = rng.randint(1, 12), rng.randint(1, 6)
        kw = {"utf8": rng.random() < 0.7, "c1": rng.random() < 0.3, "bce": rng.random() < 0.5}
        a = VT(cols, rows, **kw)
        a.feed(data)
        b = VT(cols, rows, **kw)
        i = 0
        while i < len(data):
            k = rng.randint(1, 5)
            b.feed(data[i : i + k])
            i += k
        if a.snapshot() != b.snapshot() or a.responses != b.responses:
            raise AssertionError(f"chunking changed the result for {data!r}")
        for vv in (a,):
            if not (0 <= vv.x < vv.cols and 0 <= vv.y < vv.rows and 0 <= vv.top < vv.rows and vv.top <= vv.bottom < vv.rows):
                raise AssertionError(f"cursor/region out of grid for {data!r}")
            if len(vv.cells) != rows or any(len(r) != cols for r in vv.cells):
                raise AssertionError(f"grid shape broken for {data!r}")
            for r in vv.cells:
                for x, c in enumerate(r):
                    if c.wide == 1 and not (x + 1 < cols and r[x + 1].wide == 2):
                        raise AssertionError(f"orphan wide lead for {data!r}")
                    if c.wide == 2 and not (x > 0 and r[x - 1].wide == 1):
                        raise AssertionError(f"orphan wide trail for {data!r}")
        if it % 3 == 0:
            a.resize(rng.randint(1, 12), rng.randint(1, 6), fill=rng.choice([None, GARBAGE]))
            a.feed(data)
    n[0] += 1500
    print(f"vt.py self-test: {n[0]} assertions ok")


if __name__ == "__main__":
    _selftest()
