"""Reference model + offline history checker for signal dispatch (property C14).

Independent of urwid (stdlib only).  The driver executes a history against the real
code and records an *event tree* at the handler boundary; `check(header, events)`
replays that tree against the model below and returns a list of findings.

Model state: for every (sender id, signal name) an ordered list of connections.
    Conn = (cid, hid, weak oids, user_args, user_arg)
Events (dicts, JSON-able):
    connect    {t, cid, sid, name, hid, weak, uargs, uarg, exc}
    disc_args  {t, sid, name, hid, weak, uargs, uarg, exc}
    disc_key   {t, sid, name, cid | None, exc}         (cid None = a key that never belonged here)
    kill       {t, oid, dead}                          (last external reference dropped + gc.collect())
    emit       {t, sid, name, args, calls, result, exc}
       call =  {hid, sid, name, got, ret, sub}         (sid/name = the signal the handler was made for;
                                                        sub = events caused by the handler body, in order)
Objects (senders, weak arguments) appear in argument lists as {"o": oid}.

Emit oracle (the statement's clauses):
  * snapshot S = connections present when the emit starts;
  * required = members of S that are still connected when the emit ends: called exactly once,
    mutually in connection order, with weak + user + emit args (+ deprecated user_arg last);
  * members of S explicitly disconnected during the emit, and connections made during the emit,
    are optional (at most once each);
  * a connection removed before the emit started, or whose weak argument is dead at the time
    of the call, must not be called; a handler made for another (sender, name) must not be called;
  * result is truthy iff some handler called directly by this emit returned a truthy value.
"""

from __future__ import annotations

import json


def canon(x) -> str:
    """strict structural identity (True != 1, 1 != 1.0)"""
    t = type(x)
    if t is str:
        return "s:" + x
    if t is int:
        return "i:%d" % x
    return json.dumps(x, sort_keys=True, default=repr)


class Conn:
    __slots__ = ("cid", "hid", "nkey", "sid", "name", "uarg", "uargs", "weak", "state", "why", "reent", "gcin")

    def __init__(self, cid, sid, name, hid, weak, uargs, uarg):
        self.cid = cid
        self.sid = sid
        self.name = name
        self.nkey = canon(name)
        self.hid = hid
        self.weak = list(weak)
        self.uargs = list(uargs)
        self.uarg = uarg
        self.state = "live"  # live | gone
        self.why = None  # disc | weak-death | sender-death
        self.reent = None
        self.gcin = None  # API call inside which the gc collected a weak argument of another handler of the same signal

    def expected(self, emit_args):
        return [{"o": w} for w in self.weak] + self.uargs + list(emit_args) + ([self.uarg] if self.uarg is not None else [])

    def shape(self):
        return ("w" if self.weak else "") + ("u" if self.uargs else "") + ("d" if self.uarg is not None else "") or "none"

    def same_args(self, ev):
        return (
            self.hid == ev["hid"]
            and self.weak == list(ev["weak"])
            and canon(self.uargs) == canon(list(ev["uargs"]))
            and canon(self.uarg) == canon(ev["uarg"])
        )


class Frame:
    """one emit in progress"""

    def __init__(self, sid, name, args, snapshot):
        self.sid = sid
        self.name = name
        self.nkey = canon(name)
        self.args = args
        self.snapshot = list(snapshot)
        self.in_snapshot = {c.cid for c in snapshot}
        self.removed = {}  # cid -> why, removed while this emit runs
        self.added = set()  # cids connected while this emit runs
        self.called = {}  # cid -> number of calls attributed
        self.call_order = []  # cids in attribution order
        self.muts = []  # (kind, position-in-call-sequence) mutations seen while this emit runs
        self.cur = None  # cid of the handler currently executing (attributed)
        self.wrong_args = False
        self.finds = []  # findings of the greedy attribution (dropped when an exact assignment exists)
        self.allowed = []  # per judged call: cids it may legitimately belong to at the time of the call


class Model:
    def __init__(self, header):
        self.header = header
        self.registered = {sid: [canon(n) for n in s["names"]] for sid, s in header["senders"].items()}
        # senders whose handler table does not live in an ordinary instance __dict__ (named in signatures only)
        self.layout = {sid: x["kind"] for sid, x in header["senders"].items() if x.get("kind") in ("slots", "slotsub", "slotsdict", "fwd", "prop")}
        self.lists = {}  # (sid, canon(name)) -> [Conn]
        self.conns = {}  # cid -> Conn
        self.by_hid = {}  # hid -> [Conn] in connection order
        self.nearmiss = {}  # cid -> which single part a disconnect-by-arguments request for the same callback differed in
        self.dead = set()  # dead oids
        self.frames = []
        self.findings = []
        self.stats = {}

    # ------------------------------------------------------------ helpers
    def stat(self, k, n=1):
        self.stats[k] = self.stats.get(k, 0) + n

    def find(self, sig, msg):
        self.findings.append((sig, msg))

    def lay(self, sid):
        return f"|sender-layout={self.layout[sid]}" if sid in self.layout else ""

    def lst(self, sid, name):
        return self.lists.setdefault((sid, canon(name)), [])

    def remove(self, c, why):
        l = self.lst(c.sid, c.name)
        l[:] = [x for x in l if x is not c]
        c.state = "gone"
        c.why = why
        for f in self.frames:
            if c.cid in f.in_snapshot or c.cid in f.added:
                f.removed.setdefault(c.cid, why)
            if f.sid == c.sid and f.nkey == c.nkey:
                if why == "disc":
                    cur = f.cur
                    if cur is None:
                        kind = "disc-other"
                    elif cur == c.cid:
                        kind = "disc-self"
                    elif c.cid in f.in_snapshot and cur in f.in_snapshot:
                        a = [x.cid for x in f.snapshot]
                        kind = "disc-earlier" if a.index(c.cid) < a.index(cur) else "disc-later"
                    else:
                        kind = "disc-other"
                else:
                    kind = why
                f.muts.append(kind)

    # ------------------------------------------------------------ events
    def run(self, events):
        for ev in events:
            self.event(ev)

    def event(self, ev):
        t = ev["t"]
        getattr(self, "ev_" + t)(ev)

    def ev_connect(self, ev):
        sid, name = ev["sid"], ev["name"]
        self.stat("connect")
        ok = canon(name) in self.registered.get(sid, [])
        if not ok:
            self.stat("connect_unregistered")
            if ev["exc"] is None:
                self.find("connect|unregistered-name|accepted", f"connect({sid},{name!r}) did not raise")
            elif ev["exc"] == "NameError":
                self.stat("connect_unregistered_NameError")
            return
        if ev["exc"] is not None:
            self.find(f"connect|registered-name|raise:{ev['exc']}{self.lay(sid)}", f"connect({sid},{name!r}) raised {ev['exc']}")
            return
        c = Conn(ev["cid"], sid, name, ev["hid"], ev["weak"], ev["uargs"], ev["uarg"])
        c.reent = ev.get("reent")  # ops that ran inside connect() while it consumed an argument iterable
        if c.reent:
            self.stat("connections_made_with_reentrant_connect")
        self.conns[c.cid] = c
        self.by_hid.setdefault(c.hid, []).append(c)
        self.lst(sid, name).append(c)
        for f in self.frames:
            if f.sid == sid and f.nkey == c.nkey:
                f.added.add(c.cid)
                f.muts.append("connect")

    def ev_disc_args(self, ev):
        self.stat("disc_args")
        if ev["exc"] is not None:
            self.find(f"disconnect|raise:{ev['exc']}{self.lay(ev['sid'])}", f"disconnect_signal raised {ev['exc']}")
            return
        for c in self.lst(ev["sid"], ev["name"]):
            if c.same_args(ev):
                self.stat("disc_args_hit")
                if ev["uarg"] is not None:
                    self.stat("disc_args_hit_with_user_arg")
                self.near_miss(ev, c)
                self.remove(c, "disc")
                return
        self.stat("disc_not_connected")
        self.near_miss(ev, None)

    def near_miss(self, ev, hit):
        """evidence: was there a live connection of the same callback differing from the request in exactly one part?"""
        for c in self.lst(ev["sid"], ev["name"]):
            if c is hit or c.hid != ev["hid"]:
                continue
            same = (c.weak == list(ev["weak"]), canon(c.uargs) == canon(list(ev["uargs"])), canon(c.uarg) == canon(ev["uarg"]))
            if False in same and same.count(False) == 1:
                self.nearmiss.setdefault(c.cid, set()).add(("weak_args", "user_args", "user_arg")[same.index(False)])
            if same == (True, True, False):
                self.stat("disc_args_while_same_callback_connected_with_other_user_arg")
                if ev["uarg"] is None:
                    self.stat("disc_args_user_arg_omitted_while_connected_with_one")
            elif same == (True, False, True):
                self.stat("disc_args_while_same_callback_connected_with_other_user_args")
            elif same == (False, True, True):
                self.stat("disc_args_while_same_callback_connected_with_other_weak_args")

    def ev_disc_key(self, ev):
        self.stat("disc_key")
        if ev["exc"] is not None:
            self.find(f"disconnect_by_key|raise:{ev['exc']}{self.lay(ev['sid'])}", f"disconnect_signal_by_key raised {ev['exc']}")
            return
        c = self.conns.get(ev["cid"]) if ev["cid"] is not None else None
        if c is not None and c.state == "live" and c.sid == ev["sid"] and c.nkey == canon(ev["name"]):
            self.stat("disc_key_hit")
            self.remove(c, "disc")
        else:
            self.stat("disc_not_connected")

    def ev_kill(self, ev):
        oid = ev["oid"]
        self.stat("kill")
        if ev.get("auto"):
            self.stat("kill_by_automatic_gc")
        is_sender = oid in self.header["senders"]
        if not ev["dead"]:
            n = sum(1 for c in self.conns.values() if c.state == "live" and (oid in c.weak or c.sid == oid))
            self.find(
                f"liveness|{'sender' if is_sender else 'weak-arg'}-kept-alive|{'with' if n else 'without'}-live-connections",
                f"{oid} still alive after last external reference dropped + gc.collect() ({n} live connections involve it)",
            )
        else:
            self.stat("kill_sender_dead" if is_sender else "kill_weak_dead")
            if any(c.state == "live" and (oid in c.weak or c.sid == oid) for c in self.conns.values()):
                self.stat("kill_dead_while_connected")
        self.dead.add(oid)
        for c in list(self.conns.values()):
            if c.state != "live":
                continue
            if c.sid == oid:
                self.remove(c, "sender-death")
            elif oid in c.weak:
                self.remove(c, "weak-death")
                if ev.get("inside"):
                    self.stat("weak_death_by_gc_inside:" + ev["inside"])
                    for o in self.lst(c.sid, c.name):
                        o.gcin = ev["inside"]

    def ev_gc(self, ev):
        self.stat("gc")

    def ev_emit(self, ev):
        sid, name, args = ev["sid"], ev["name"], ev["args"]
        self.stat("emit")
        if self.frames:
            self.stat("emit_nested")
            nk = canon(name)
            for f in self.frames:
                if f.sid == sid and f.nkey == nk:
                    f.muts.append("nested-emit")
        f = Frame(sid, name, args, self.lst(sid, name))
        self.frames.append(f)
        any_true = False
        for call in ev["calls"]:
            if "marker" in call:  # something that happened between two handler calls (a weak argument collected by the gc)
                self.event(call["marker"])
                continue
            self.stat("calls")
            any_true = any_true or bool(call["truthy"])
            self.attribute(f, call)
            self.run(call["sub"])
            f.cur = None
        self.frames.pop()
        depth = "nested" if self.frames else "top"
        if ev["exc"] is not None:
            self.find(f"emit|raise:{ev['exc']}|{depth}|during:{self.mutsig(f)}", f"emit({sid},{name!r}) raised {ev['exc']}")
            return
        # ---- exactly once / never skipped
        required = [c for c in f.snapshot if c.cid not in f.removed]
        self.stat("required_handlers", len(required))
        if f.removed:
            self.stat("emits_with_removal_during")
        if f.added:
            self.stat("emits_with_connect_during")
        if any(w != "disc" for w in f.removed.values()):
            self.stat("emits_with_weak_death_during")
        for c in required:
            n = f.called.get(c.cid, 0)
            if n == 0:
                f.finds.append(
                    (
                        self.skipped_sig(f, c, depth, sid),
                        f"connection #{c.cid} (handler {c.hid}) stayed connected throughout emit({sid},{name!r}) but was not called; "
                        f"snapshot={[x.cid for x in f.snapshot]} called={f.call_order} removed={f.removed} added={sorted(f.added)}",
                    )
                )
            else:
                self.stat("required_called_once")
        # ---- connection order among required
        req_ids = {c.cid for c in required}
        seq = [cid for cid in f.call_order if cid in req_ids]
        want = [c.cid for c in required if f.called.get(c.cid)]
        # de-duplicate preserving first occurrence (twice-called is reported separately)
        seen = set()
        seq1 = [x for x in seq if not (x in seen or seen.add(x))]
        if seq1 != want:
            f.finds.append((f"emit|order|{depth}|during:{self.mutsig(f)}", f"required handlers called in order {seq1}, connection order is {want}"))
        elif len(want) > 1:
            self.stat("order_checked")
        if f.wrong_args:
            f.finds = [x for x in f.finds if "|handler-skipped|" not in x[0] and "|order|" not in x[0]]
        if f.finds and all(len(a) <= 1 for a in f.allowed):
            self.findings.extend(f.finds)  # no identical duplicates involved: the greedy attribution is exact
        elif f.finds:
            # the greedy attribution failed; with identical duplicate connections it may simply have guessed wrong
            verdict = self.exact_assignment(f, [c.cid for c in required])
            if verdict is True:
                self.stat("duplicate_ambiguity_resolved")
            elif verdict is None:
                self.stat("attribution_undecided")
            else:
                self.findings.extend(f.finds)
        # ---- result
        if ev["result"] != "n/a":
            self.stat("result_checked")
            if any_true:
                self.stat("result_true_expected")
            if bool(ev["result_truthy"]) != any_true:
                self.find(
                    f"emit|result|expected={any_true}|ncalls={min(sum(1 for c in ev['calls'] if 'marker' not in c), 2)}",
                    f"emit returned {ev['result']!r}; handler returns were {[c['ret'] for c in ev['calls'] if 'marker' not in c]}",
                )

    def skipped_sig(self, f, c, depth, sid):
        if c.gcin in ("by_key", "disconnect"):
            # one canonical signature for this mechanism, whatever else went on in the history
            return "emit|handler-skipped|live-handler-lost-after-gc-collected-a-weak-arg-inside-a-disconnect-call"
        return (
            f"emit|handler-skipped|{depth}|during:{self.mutsig(f)}"
            + ("|connection-made-while-connect-was-re-entered" if c.reent else "")
            + (f"|after-disconnect-request-differing-only-in:{'+'.join(sorted(self.nearmiss[c.cid]))}" if c.cid in self.nearmiss else "")
            + (f"|a-weak-arg-of-this-signal-was-collected-inside:{c.gcin}" if c.gcin else "")
            + self.lay(sid)
        )

    def exact_assignment(self, f, required, budget=4000):
        """is there an assignment call -> distinct allowed connection with every required connection used
        exactly once, in connection order?  True / False / None (search budget exhausted)"""
        # (calls rejected for definitive reasons -- wrong args, cross-talk -- are not in f.allowed)
        n = len(f.allowed)
        req_set = set(required)
        seen = set()
        nodes = 0

        def dfs(i, nreq, used):
            nonlocal nodes
            nodes += 1
            if nodes > budget:
                raise TimeoutError
            if i == n:
                return nreq == len(required)
            k = (i, nreq, used)
            if k in seen:
                return False
            seen.add(k)
            opts = f.allowed[i]
            if nreq < len(required) and required[nreq] in opts and dfs(i + 1, nreq + 1, used):
                return True
            for cid in opts:
                if cid not in req_set and cid not in used and dfs(i + 1, nreq, used | {cid}):
                    return True
            return False

        try:
            return dfs(0, 0, frozenset())
        except TimeoutError:
            return None
        except RecursionError:
            return None

    def mutsig(self, f):
        m = sorted(set(f.muts))
        return "+".join(m) if m else "none"

    def attribute(self, f, call):
        """decide which connection this observed call belongs to and whether it was allowed"""
        depth = "nested" if len(self.frames) > 1 else "top"
        if call["sid"] != f.sid or canon(call["name"]) != f.nkey:
            kind = "other-sender" if call["sid"] != f.sid else "other-name"
            self.find(f"emit|cross-talk|{kind}", f"emit({f.sid},{f.name!r}) called handler {call['hid']} made for ({call['sid']},{call['name']!r})")
            return
        got = canon(call["got"])
        mine = [c for c in self.by_hid.get(call["hid"], ()) if c.sid == f.sid and c.nkey == f.nkey]
        if not mine:
            self.find("emit|spurious-call|handler-never-connected", f"handler {call['hid']} called but never connected to ({f.sid},{f.name!r})")
            return
        match = [c for c in mine if canon(c.expected(f.args)) == got]
        if not match:
            c = mine[-1]
            exp = c.expected(f.args)
            g = call["got"]
            if len(g) != len(exp):
                kind = "count"
            elif sorted(map(canon, g)) == sorted(map(canon, exp)):
                kind = "order"
            else:
                kind = "value"
            self.find(f"emit|wrong-args|{kind}|connect-args={c.shape()}", f"handler {c.hid} got {g}, expected {exp}")
            f.wrong_args = True  # the call happened: do not additionally report its connection as skipped
            return
        self.stat("args_checked")
        if match[0].weak:
            self.stat("args_checked_weak")
        if match[0].uarg is not None:
            self.stat("args_checked_user_arg")

        f.allowed.append([c.cid for c in match if (c.cid in f.in_snapshot or c.cid in f.added) and f.removed.get(c.cid, "disc") == "disc"])

        def usable(c):
            return f.called.get(c.cid, 0) == 0

        # 1. live member of the snapshot, not yet called
        for c in match:
            if c.cid in f.in_snapshot and c.cid not in f.removed and usable(c):
                return self.take(f, c)
        # 2. optional: connected during the emit, or explicitly disconnected during the emit
        for c in match:
            if usable(c) and (c.cid in f.added or f.removed.get(c.cid) == "disc"):
                self.stat("optional_calls")
                return self.take(f, c)
        # 3. not allowed
        dead = [c for c in match if usable(c) and f.removed.get(c.cid) in ("weak-death", "sender-death")]
        if dead:
            f.finds.append((f"emit|called-with-dead-weak-arg|{depth}", f"connection #{dead[0].cid} called after its weak argument died"))
            return None
        again = [c for c in match if not usable(c)]
        if again:
            c = again[0]
            f.finds.append((f"emit|called-twice|{depth}|during:{self.mutsig(f)}", f"connection #{c.cid} (handler {c.hid}) called more than once in one emit; order so far {f.call_order}"))
            f.called[c.cid] += 1
            return None
        c = match[0]
        f.finds.append(
            (
                f"emit|called-after-disconnect|{depth}|why={c.why}",
                f"connection #{c.cid} (handler {c.hid}) was removed ({c.why}) before emit({f.sid},{f.name!r}) started but was called",
            )
        )
        return None

    def take(self, f, c):
        f.called[c.cid] = f.called.get(c.cid, 0) + 1
        f.call_order.append(c.cid)
        f.cur = c.cid
        return c


def check(header, events):
    """returns (findings [(sig, msg)], stats dict)"""
    m = Model(header)
    m.run(events)
    return m.findings, m.stats


# ---------------------------------------------------------------------------------------------------
# registration through metaclasses: which names must connect() accept / reject for each class?
#
# Documented rule (MetaSignals): a class registers the names in its own `signals` list plus the signals of
# its superclasses.  Events (recorded by the driver, in order):
#   class     {t, c, bases, own, base_attr, list, how}   own = contents of the body's list right BEFORE the class
#                                                        is created (None: no `signals` in the body);
#                                                        base_attr[b] = contents of b.signals at that moment;
#                                                        list = label of the list OBJECT bound in the body
#   plain     {t, c}                                     ordinary class, nothing registered
#   register  {t, c, names}                              register_signal(c, names) called by hand
#   probe     {t, c, name, accepted, exc, called}        connect() attempted on an instance of c
# must-accept(c)  = own(c) + must-accept(bases)              (later classes never change it)
# everything else must be rejected.  (Until MetaSignals stopped extending the body's list object in place, names that a
# base's list object happened to contain when c was created were tolerated; that band is now only measured:
# registration_probes_in_former_tolerance_band.)


def check_family(events):
    must, may, how, lists, order = {}, {}, {}, {}, []
    band = {}  # class -> names that used to be tolerated (in a base's list object, not registered by the base)
    prov = {}  # class -> {name key: where the obligation to accept it comes from}
    gap = {}  # class -> True when it, or an ancestor, has no `signals` of its own and several bases
    inherit = {}  # class -> union over its whole MRO of every class's OWN `signals` (what a subclass inherits from it)
    ownk = {}  # class -> its own names
    anc = {}  # class -> all ancestors
    mixin = set()  # ordinary classes (no metaclass): contribute names to subclasses, are not registered themselves
    findings, stats = [], {}

    def stat(k, n=1):
        stats[k] = stats.get(k, 0) + n

    for ev in events:
        t = ev["t"]
        c = ev.get("c")
        if t == "class":
            own = [canon(x) for x in (ev["own"] or [])]
            m = set(own)
            l = set(own)
            for b in ev["bases"]:
                m |= inherit.get(b, must.get(b, set()))
                l |= may.get(b, set())
                l |= {canon(x) for x in ev["base_attr"].get(b, [])}
            # Since the registered list is a fresh per-class list (own names + every MRO ancestor's), nothing outside
            # must-accept may be accepted: the former "may-accept" band (contents a base's list object happened to have
            # when the class was created) is only measured, no longer tolerated.
            band[c] = (l | m) - m
            must[c], may[c] = m, set(m)
            inherit[c] = set(m)
            ownk[c] = set(own)
            anc[c] = set(ev["bases"]).union(*[anc.get(b, set()) for b in ev["bases"]])
            if any(a in mixin for a in anc[c]):
                stat("family_metaclass_class_with_ordinary_ancestor")
                if any(a in mixin and a not in ev["bases"] for a in anc[c]):
                    stat("family_metaclass_class_with_ordinary_ancestor_at_depth>=2")
            gap[c] = (ev["own"] is None and len(ev["bases"]) > 1) or any(gap.get(b) for b in ev["bases"])
            pv = {}
            for k in m:
                if k in own:
                    pv[k] = "own-list"
                elif any(k in {canon(x) for x in ev["base_attr"].get(b, [])} for b in ev["bases"]):
                    pv[k] = "list-of-a-direct-base"
                elif all(a in mixin for a in anc[c] if k in ownk.get(a, ())):
                    pv[k] = "own-list-of-an-ordinary-ancestor-not-visible-through-the-direct-bases"
                elif any(gap.get(b) for b in ev["bases"]):
                    pv[k] = "inherited-via-class-without-own-list-and-several-bases"
                else:
                    pv[k] = "inherited-but-in-no-base-list"
            prov[c] = pv
            how[c] = ev["how"] + ("+bases" if ev["bases"] else "")
            lists[c] = ev.get("list")
            order.append(c)
            stat("family_classes")
            stat("family_class:" + ev["how"])
            if len(ev["bases"]) > 1:
                stat("family_class_multiple_bases")
        elif t == "mixin":
            own = {canon(x) for x in (ev["own"] or [])}
            inherit[c] = set(own).union(*[inherit.get(b, set()) for b in ev["bases"]])
            ownk[c] = own
            anc[c] = set(ev["bases"]).union(*[anc.get(b, set()) for b in ev["bases"]])
            mixin.add(c)
            must[c], may[c] = set(), set()  # never registered: connect() on its own instances must be rejected
            how[c] = "ordinary-class-unregistered"
            lists[c] = ev.get("list")
            order.append(c)
            stat("family_ordinary_ancestor_classes")
        elif t == "plain":
            must[c], may[c] = set(), set()
            how[c] = "plain-unregistered"
            lists[c] = None
            order.append(c)
        elif t == "register":
            must[c] = {canon(x) for x in ev["names"]}
            may[c] = set(must[c])
            prov[c] = dict.fromkeys(must[c], "manual-register")
            how[c] = "manual-register"
            stat("family_manual_register")
        elif t == "probe":
            k = canon(ev["name"])
            stat("registration_probes")
            later_sharing = any(lists.get(o) is not None and lists.get(o) == lists.get(c) for o in order[order.index(c) + 1 :])
            if k in must[c]:
                stat("registration_probes_must_accept")
                if not ev["accepted"]:
                    findings.append((f"register|registered-name-rejected|name-from={prov.get(c, {}).get(k, '?')}|raise:{ev['exc']}", f"connect(instance of {c}, {ev['name']!r}) raised {ev['exc']}; {c} registers {sorted(must[c])}"))
                elif ev["called"] is False:
                    findings.append((f"register|accepted-handler-not-called|class-signals={how[c]}", f"handler connected to ({c}, {ev['name']!r}) not called exactly once by emit"))
            elif k not in may[c]:
                stat("registration_probes_must_reject")
                if k in band.get(c, ()):
                    stat("registration_probes_in_former_tolerance_band")
                if later_sharing:
                    stat("registration_probes_must_reject_list_shared_with_later_class")
                if ev["accepted"]:
                    findings.append(
                        (
                            f"register|unregistered-name-accepted|class-signals={how[c]}|{'list-object-shared-with-later-class' if later_sharing else 'no-shared-list'}",
                            f"connect(instance of {c}, {ev['name']!r}) was accepted; {c} registers only {sorted(must[c])}",
                        )
                    )
                elif ev["exc"] == "NameError":
                    stat("registration_rejections_NameError")
            else:
                stat("registration_probes_unjudged")
    return findings, stats
