"""Reference model of a canvas: a plain two-dimensional grid of character cells.

Independent of urwid (imports only the stdlib and the `wcwidth` tables).

A row is a list of *items* ``(b, w, a, cs)``:
    b   bytes of one character in the screen encoding
    w   display width 0 | 1 | 2 (a double-width character is ONE item covering two cells;
        a zero-width item belongs to the cell of the item before it)
    a   display attribute (any hashable or None)
    cs  character-set flag (None | "0" | "U")
A grid is ``Grid(cols, rows_list)`` plus the coordinates riding on it (cursor / pop-up candidates).

Rules implemented here (the "two-dimensional array of cells" semantics the property refers to):
  * cutting a column range out of a row keeps the items wholly inside it; a double-width item
    straddling either edge becomes ONE space carrying that character's attribute and cs None;
    zero-width items follow the item they are attached to: they are kept iff that item is kept
    whole (zero-width items at the very start of a row are kept iff the range starts at column 0);
  * padding cells are spaces with attribute None and cs None;
  * an attribute map m turns attribute a into m.get(a, a) on every cell, including padding.
"""

from __future__ import annotations

import wcwidth

SPACE = b" "


def char_width(ch: str) -> int:
    w = wcwidth.wcwidth(ch)
    return w if w >= 0 else 0


LENIENT = False  # utf8 only: a byte that does not start a well-formed character is one cell of its own


def set_lenient(flag: bool) -> None:
    global LENIENT
    LENIENT = bool(flag)


def _split_utf8_lenient(b: bytes):
    out = []
    i, n = 0, len(b)
    while i < n:
        c = b[i]
        k = 1 if c < 0x80 else 2 if 0xC2 <= c < 0xE0 else 3 if 0xE0 <= c < 0xF0 else 4 if 0xF0 <= c < 0xF5 else 0
        chunk = b[i : i + k]
        try:
            if not k:
                raise ValueError
            ch = chunk.decode("utf-8")
        except ValueError:
            out.append((b[i : i + 1], 1))
            i += 1
            continue
        out.append((chunk, char_width(ch)))
        i += k
    return out


def split_chars(b: bytes, mode: str):
    """bytes of one row -> list of (char_bytes, width).  mode in utf8|wide|narrow.
    Raises ValueError on bytes that are not text in that encoding (unless LENIENT)."""
    out = []
    if mode == "utf8" and LENIENT:
        return _split_utf8_lenient(b)
    if mode == "utf8":
        i, n = 0, len(b)
        while i < n:
            c = b[i]
            if c < 0x80:
                k = 1
            elif 0xC2 <= c < 0xE0:
                k = 2
            elif 0xE0 <= c < 0xF0:
                k = 3
            elif 0xF0 <= c < 0xF5:
                k = 4
            else:
                raise ValueError(f"bad utf-8 lead byte at {i}: {b!r}")
            chunk = b[i : i + k]
            ch = chunk.decode("utf-8")  # strict: raises on truncated / overlong
            out.append((chunk, char_width(ch)))
            i += k
        return out
    if mode == "wide":
        i, n = 0, len(b)
        while i < n:
            if b[i] < 0x80:
                out.append((b[i : i + 1], 1))
                i += 1
            else:
                if i + 1 >= n:
                    raise ValueError(f"truncated double-byte char at {i}: {b!r}")
                out.append((b[i : i + 2], 2))
                i += 2
        return out
    return [(b[i : i + 1], 1) for i in range(len(b))]


def row_width(row) -> int:
    return sum(it[1] for it in row)


def blank_row(n: int, a=None):
    return [(SPACE, 1, a, None)] * n


def cut_row(row, start: int, end: int):
    """items covering screen columns [start, end)"""
    out = []
    col = 0
    prev_whole = start == 0  # zero-width items before any base item
    for b, w, a, cs in row:
        if w == 0:
            if prev_whole:
                out.append((b, w, a, cs))
            continue
        lo, hi = col, col + w
        col = hi
        if hi <= start or lo >= end:
            prev_whole = False
            continue
        if lo >= start and hi <= end:
            out.append((b, w, a, cs))
            prev_whole = True
        else:
            # double-width item straddling an edge: one space with its attribute, cs None
            out.append((SPACE, 1, a, None))
            prev_whole = False
    return out


def map_row(row, mapping):
    if not mapping:
        return list(row)
    return [(b, w, (mapping[a] if a in mapping else a), cs) for b, w, a, cs in row]


class Grid:
    __slots__ = ("cols", "rows", "cursors", "popups")

    def __init__(self, cols, rows, cursors=(), popups=()):
        self.cols = cols
        self.rows = [list(r) for r in rows]
        self.cursors = list(cursors)  # candidate (x, y)
        self.popups = list(popups)  # candidate (x, y, tag)

    @property
    def nrows(self):
        return len(self.rows)

    def copy(self):
        return Grid(self.cols, self.rows, self.cursors, self.popups)

    def shifted(self, dx, dy):
        g = self.copy()
        g.cursors = [(x + dx, y + dy) for x, y in g.cursors]
        g.popups = [(x + dx, y + dy, t) for x, y, t in g.popups]
        return g

    def check(self):
        for r in self.rows:
            if row_width(r) != self.cols:
                raise AssertionError(f"model row width {row_width(r)} != {self.cols}")

    def key(self):
        return (self.cols, tuple(tuple(r) for r in self.rows))


# ---------------------------------------------------------------- operations


def stack(grids):
    cols = grids[0].cols
    rows = []
    cursors, popups = [], []
    y = 0
    for g in grids:
        if g.cols != cols:
            raise ValueError("stack: widths differ")
        rows.extend(g.rows)
        cursors += [(x, cy + y) for x, cy in g.cursors]
        popups += [(x, py + y, t) for x, py, t in g.popups]
        y += g.nrows
    return Grid(cols, rows, cursors, popups)


def pad_trim_lr(g, left, right):
    """left/right > 0 pad with blanks, < 0 trim"""
    tl = max(0, -left)
    tr = max(0, -right)
    pl = max(0, left)
    pr = max(0, right)
    keep = g.cols - tl - tr
    if keep <= 0:
        raise ValueError("pad_trim_lr: nothing left")
    rows = []
    for r in g.rows:
        mid = cut_row(r, tl, tl + keep) if (tl or tr) else list(r)
        rows.append(blank_row(pl) + mid + blank_row(pr))
    out = Grid(pl + keep + pr, rows, g.cursors, g.popups)
    return out.shifted(left, 0)


def pad_trim_tb(g, top, bottom):
    tt = max(0, -top)
    tb = max(0, -bottom)
    keep = g.nrows - tt - tb
    if keep < 0:
        raise ValueError("pad_trim_tb: nothing left")
    rows = g.rows[tt : tt + keep]
    rows = [blank_row(g.cols) for _ in range(max(0, top))] + rows + [blank_row(g.cols) for _ in range(max(0, bottom))]
    out = Grid(g.cols, rows, g.cursors, g.popups)
    return out.shifted(0, top)


def trim(g, top, count=None):
    rows = g.rows[top:] if count is None else g.rows[top : top + count]
    return Grid(g.cols, rows, g.cursors, g.popups).shifted(0, -top)


def trim_end(g, end):
    return Grid(g.cols, g.rows[: g.nrows - end], g.cursors, g.popups)


def join(parts):
    """parts: list of (grid, cols) - each padded (or trimmed) on the right to cols, and at the bottom to the tallest"""
    maxrow = max(g.nrows for g, _ in parts)
    rows = [[] for _ in range(maxrow)]
    cursors, popups = [], []
    x0 = 0
    for g, cols in parts:
        if cols != g.cols:
            g = pad_trim_lr(g, 0, cols - g.cols)
        if g.nrows < maxrow:
            g = pad_trim_tb(g, 0, maxrow - g.nrows)
        for y in range(maxrow):
            rows[y].extend(g.rows[y])
        cursors += [(x + x0, y) for x, y in g.cursors]
        popups += [(x + x0, y, t) for x, y, t in g.popups]
        x0 += g.cols
    return Grid(x0, rows, cursors, popups)


def overlay(bottom, top, left, toprow):
    if left < 0 or toprow < 0 or left + top.cols > bottom.cols or toprow + top.nrows > bottom.nrows:
        raise ValueError("overlay: not inside")
    rows = [list(r) for r in bottom.rows]
    for i, tr in enumerate(top.rows):
        y = toprow + i
        r = bottom.rows[y]
        lpart = cut_row(r, 0, left) if left > 0 else []
        right0 = left + top.cols
        rpart = cut_row(r, right0, bottom.cols) if right0 < bottom.cols else []
        rows[y] = lpart + list(tr) + rpart
    t = top.shifted(left, toprow)
    return Grid(bottom.cols, rows, bottom.cursors + t.cursors, bottom.popups + t.popups)


def attr_map(g, mapping):
    return Grid(g.cols, [map_row(r, mapping) for r in g.rows], g.cursors, g.popups)


# ---------------------------------------------------------------- reading real content


def flatten_rows(content_rows, mode: str):
    """content_rows: iterable of rows, each a list of (attr, cs, bytes) segments (as urwid's
    Canvas.content() yields).  Returns list of item rows.  Raises ValueError if a segment boundary
    splits a character (attribute or charset run ends inside a multi-byte character)."""
    out = []
    for segs in content_rows:
        row = []
        for a, cs, b in segs:
            if not isinstance(b, bytes):
                raise ValueError(f"segment text is {type(b).__name__}, not bytes")
            for chb, w in split_chars(b, mode):
                row.append((chb, w, a, cs))
        out.append(row)
    return out


def apply_delta(old_rows, delta_rows, cols: int, mode: str):
    """old_rows: item rows of the previously drawn canvas; delta_rows: rows as yielded by
    content_delta (ints = that many columns unchanged, tuples = new segments)."""
    out = []
    for y, segs in enumerate(delta_rows):
        row = []
        col = 0
        if isinstance(segs, int):
            segs = [segs]
        for s in segs:
            if isinstance(s, int):
                if y >= len(old_rows):
                    raise ValueError("delta skips columns of a row the old canvas does not have")
                row.extend(cut_row(old_rows[y], col, col + s))
                col += s
            else:
                a, cs, b = s
                for chb, w in split_chars(b, mode):
                    row.append((chb, w, a, cs))
                    col += w
        out.append(row)
    return out


def first_diff(rows_a, rows_b):
    """(y, x_col, item_a, item_b) of the first differing item, or None"""
    for y, (ra, rb) in enumerate(zip(rows_a, rows_b)):
        if ra == rb:
            continue
        col = 0
        for i in range(max(len(ra), len(rb))):
            ia = ra[i] if i < len(ra) else None
            ib = rb[i] if i < len(rb) else None
            if ia != ib:
                return (y, col, ia, ib)
            col += ia[1]
    if len(rows_a) != len(rows_b):
        return (min(len(rows_a), len(rows_b)), 0, None, None)
    return None


def diff_kind(d) -> str:
    """classify a first_diff result by what differs"""
    if d is None:
        return "same"
    _, _, ia, ib = d
    if ia is None or ib is None:
        return "rowlen"
    kinds = []
    if ia[0] != ib[0] or ia[1] != ib[1]:
        if (ia[1] == 2) != (ib[1] == 2) and SPACE in (ia[0], ib[0]):
            kinds.append("wide-cut")
        elif ia[1] == 0 or ib[1] == 0:
            kinds.append("zero-width")
        else:
            kinds.append("text")
    if ia[2] != ib[2]:
        kinds.append("attr")
    if ia[3] != ib[3]:
        kinds.append("cs")
    return "+".join(kinds)
