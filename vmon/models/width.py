"""Reference model of terminal display width (shared by several checks; owner: C11).

Independent of urwid: imports only the stdlib and the ``wcwidth`` package (urwid's declared
source of the Unicode width tables).  ``unicodedata`` is deliberately NOT used (different
Unicode version => manufactured disagreements).

Text is either ``str`` (a sequence of code points; the same in every mode) or ``bytes`` in
one of three *modes* (what ``urwid.util.set_encoding`` selects):

``"utf8"``    bytes are UTF-8.  Decoded by a strict decoder of my own (Unicode 15 table 3-7:
              shortest form only, no surrogates, nothing above U+10FFFF).  Width of a
              well-formed sequence = max(0, wcwidth(cp)).  Every byte that cannot start a
              well-formed sequence at its position (stray continuation byte, C0/C1/F5..FF,
              lead byte of an overlong / surrogate / out-of-range / truncated sequence) is
              ONE character of ONE column; decoding resumes at the next byte.  (This is also
              what urwid documents for itself: ``decode_one`` answers ``('?', pos + 1)``.)
``"wide"``    double-byte CJK encodings (euc-jp, euc-kr, gb2312, gbk, big5, uhc ...).  Scanned
              left to right from the start of the text: a lead byte (0x81..0xFE) followed by a
              trail byte (0x40..0x7E or 0x80..0xFE) is one character of 2 bytes and 2 columns;
              any other byte (ASCII, a lead byte followed by a non-trail byte or by the end of
              the text, 0x80, 0xFF) is one character of 1 byte and 1 column.  Hence width ==
              byte count for every bytes text.  For text that really is the euc-jp/gbk/big5
              encoding of a string whose characters all have encoded length == wcwidth the
              scan reproduces the true character boundaries (induction over the scan).
``"narrow"``  single-byte encodings: every byte is one character of one column.

Offsets are indices into the text (code-point indices for str, byte indices for bytes);
columns count from 0.  A *boundary* is an offset at which a character starts, plus len(text).

Public API
----------
MODES                               ("utf8", "wide", "narrow")
mode_of_encoding(name)           -> mode urwid's set_encoding(name) is specified to select
char_width(cp)                   -> 0 | 1 | 2       cp: int or 1-char str
str_width(s)                     -> int
decode_utf8_strict(b, i)         -> (cp | None, next_i)      None = invalid byte at i
utf8_defect(b, i)                -> None | why byte i is invalid: stray-continuation, overlong2-lead,
                                    byte-F8..FF, truncated, lead-without-continuation, overlong,
                                    surrogate, above-10FFFF
bytes_width(b, mode)             -> int
width(text, mode)                -> str_width / bytes_width by type
cells(text, mode)                -> [(char_or_bytes, width), ...]   one entry per character
boundaries(text, mode)           -> [0, ..., len(text)]
columns(text, mode)              -> [col at boundary 0, ..., total width]  (parallel to boundaries)
is_boundary(text, mode, i)       -> bool
is_wide_lead(byte) / is_wide_trail(byte)   the "wide" mode classifier
width_change_points()            -> sorted code points where char_width(cp) != char_width(cp - 1)
                                    and their neighbours (workload selection only, not an oracle)
"""

from __future__ import annotations

import wcwidth as _wcwidth

MODES = ("utf8", "wide", "narrow")

_WIDE_ENCODINGS = frozenset(
    ["euc-jp", "euc-kr", "euc-cn", "euc-tw", "gb2312", "gbk", "big5", "cn-gb", "uhc", "eucjp", "euckr", "euccn", "euctw", "cncb"]
)
_UTF8_ENCODINGS = frozenset(["utf-8", "utf8", "utf"])


def mode_of_encoding(name: str) -> str:
    """mode that an encoding name stands for (documented behaviour of urwid.util.set_encoding)"""
    name = name.lower()
    if name in _UTF8_ENCODINGS:
        return "utf8"
    if name in _WIDE_ENCODINGS:
        return "wide"
    return "narrow"


# ------------------------------------------------------------------ code points

_cw_cache: dict[int, int] = {}


def char_width(cp) -> int:
    """columns taken by one code point: max(0, wcwidth.wcwidth(chr(cp))) -- 0, 1 or 2"""
    if isinstance(cp, str):
        cp = ord(cp)
    w = _cw_cache.get(cp)
    if w is None:
        w = _wcwidth.wcwidth(chr(cp))
        if w < 0:
            w = 0
        _cw_cache[cp] = w
    return w


def str_width(s: str) -> int:
    cw = char_width
    return sum(cw(ord(c)) for c in s)


# ------------------------------------------------------------------ strict UTF-8


def _cont(b: bytes, i: int, lo: int = 0x80, hi: int = 0xBF) -> bool:
    return i < len(b) and lo <= b[i] <= hi


def decode_utf8_strict(b: bytes, i: int):
    """decode the character starting at byte offset i (0 <= i < len(b)).

    Returns (code point, offset after the sequence) for a well-formed sequence (Unicode table
    3-7), else (None, i + 1): byte i is invalid here and stands for itself.
    """
    b0 = b[i]
    if b0 < 0x80:
        return b0, i + 1
    if 0xC2 <= b0 <= 0xDF:
        if _cont(b, i + 1):
            return ((b0 & 0x1F) << 6) | (b[i + 1] & 0x3F), i + 2
        return None, i + 1
    if 0xE0 <= b0 <= 0xEF:
        lo, hi = 0x80, 0xBF
        if b0 == 0xE0:
            lo = 0xA0  # no overlong
        elif b0 == 0xED:
            hi = 0x9F  # no surrogates
        if _cont(b, i + 1, lo, hi) and _cont(b, i + 2):
            return ((b0 & 0x0F) << 12) | ((b[i + 1] & 0x3F) << 6) | (b[i + 2] & 0x3F), i + 3
        return None, i + 1
    if 0xF0 <= b0 <= 0xF4:
        lo, hi = 0x80, 0xBF
        if b0 == 0xF0:
            lo = 0x90  # no overlong
        elif b0 == 0xF4:
            hi = 0x8F  # <= U+10FFFF
        if _cont(b, i + 1, lo, hi) and _cont(b, i + 2) and _cont(b, i + 3):
            return (((b0 & 0x07) << 18) | ((b[i + 1] & 0x3F) << 12) | ((b[i + 2] & 0x3F) << 6) | (b[i + 3] & 0x3F)), i + 4
        return None, i + 1
    return None, i + 1  # 80..BF stray continuation, C0, C1, F5..FF


def utf8_defect(b: bytes, i: int):
    """None if a well-formed sequence starts at i, else a short name of what is wrong with byte i
    (used for signatures / class coverage, not for widths)."""
    cp, _n = decode_utf8_strict(b, i)
    if cp is not None:
        return None
    b0 = b[i]
    if 0x80 <= b0 <= 0xBF:
        return "stray-continuation"
    if b0 in (0xC0, 0xC1):
        return "overlong2-lead"
    if b0 >= 0xF8:
        return "byte-F8..FF"
    need = 1 if b0 < 0xE0 else 2 if b0 < 0xF0 else 3
    have = 0
    while have < need and _cont(b, i + 1 + have):
        have += 1
    if have < need:
        return "truncated" if i + 1 + have >= len(b) else "lead-without-continuation"
    # enough continuation bytes, so the lead / second byte is out of the restricted range
    if b0 == 0xE0 or b0 == 0xF0:
        return "overlong"
    if b0 == 0xED:
        return "surrogate"
    return "above-10FFFF"  # F4 90.., F5..F7 (4-byte forms of values > U+10FFFF)


# ------------------------------------------------------------------ double-byte classifier


def is_wide_lead(byte: int) -> bool:
    return 0x81 <= byte <= 0xFE


def is_wide_trail(byte: int) -> bool:
    return 0x40 <= byte <= 0x7E or 0x80 <= byte <= 0xFE


# ------------------------------------------------------------------ characters of a text


def cells(text, mode: str):
    """[(char, width), ...] one entry per character, in order.

    char is a 1-char str for str text, else the bytes of the character.
    """
    if isinstance(text, str):
        cw = char_width
        return [(c, cw(ord(c))) for c in text]
    if not isinstance(text, (bytes, bytearray)):
        raise TypeError(text)
    text = bytes(text)
    n = len(text)
    out = []
    i = 0
    if mode == "utf8":
        while i < n:
            cp, j = decode_utf8_strict(text, i)
            out.append((text[i:j], 1 if cp is None else char_width(cp)))
            i = j
    elif mode == "wide":
        while i < n:
            if is_wide_lead(text[i]) and i + 1 < n and is_wide_trail(text[i + 1]):
                out.append((text[i : i + 2], 2))
                i += 2
            else:
                out.append((text[i : i + 1], 1))
                i += 1
    elif mode == "narrow":
        out = [(text[k : k + 1], 1) for k in range(n)]
    else:
        raise ValueError(mode)
    return out


def boundaries(text, mode: str) -> list[int]:
    """character-boundary offsets, from 0 to len(text) inclusive"""
    if isinstance(text, str):
        return list(range(len(text) + 1))
    out = [0]
    pos = 0
    for ch, _w in cells(text, mode):
        pos += len(ch)
        out.append(pos)
    return out


def columns(text, mode: str) -> list[int]:
    """screen column at each boundary (same length as boundaries(text, mode)); last = total width"""
    out = [0]
    col = 0
    for _ch, w in cells(text, mode):
        col += w
        out.append(col)
    return out


def is_boundary(text, mode: str, i: int) -> bool:
    return i in boundaries(text, mode)


def bytes_width(b: bytes, mode: str) -> int:
    if mode == "utf8":
        return sum(w for _c, w in cells(b, mode))
    if mode in ("wide", "narrow"):
        return len(b)
    raise ValueError(mode)


def width(text, mode: str) -> int:
    """display width of a str (any mode) or of bytes under mode"""
    if isinstance(text, str):
        return str_width(text)
    return bytes_width(text, mode)


def width_change_points() -> list[int]:
    """code points at the edges of the wcwidth zero-width / wide ranges (lo-1, lo, hi, hi+1), the
    C0/C1 edges and the UTF-8 length edges.  For choosing test points only."""
    pts = {0, 1, 0x1F, 0x20, 0x7E, 0x7F, 0x80, 0x9F, 0xA0, 0xFF, 0x100, 0x7FF, 0x800, 0xD7FF, 0xE000, 0xFFFF, 0x10000, 0x10FFFF}
    try:
        from wcwidth import table_wide, table_zero  # noqa: PLC0415

        for table in (table_wide.WIDE_EASTASIAN, table_zero.ZERO_WIDTH):
            latest = table[sorted(table, key=lambda v: tuple(int(x) for x in v.split(".")))[-1]]
            for lo, hi in latest:
                pts.update((lo - 1, lo, hi, hi + 1))
    except Exception:  # noqa: BLE001  (table layout of another wcwidth release)
        prev = None
        for cp in range(0x110000):
            w = char_width(cp)
            if w != prev:
                pts.update((cp - 1, cp))
                prev = w
    return sorted(p for p in pts if 0 <= p <= 0x10FFFF and not 0xD800 <= p <= 0xDFFF)
