"""Independent reference copy of xterm's indexed colour palettes (256- and 88-colour builds).

Written from the xterm definition (256colres.pl / 88colres.pl / XTerm-col.ad), not from urwid:

* indices 0..15   : the 16 "ANSI" colours with xterm's default resources
                    (black, red3, green3, yellow3, blue2, magenta3, cyan3, gray90,
                     gray50, red, green, yellow, rgb:5c/5c/ff, magenta, cyan, white)
* 256-colour build: 16..231 = 6x6x6 cube, component level = 0 if i == 0 else 55 + 40*i
                    (0, 95, 135, 175, 215, 255), index = 16 + 36*r + 6*g + b;
                    232..255 = 24 grays, level = 8 + 10*i
* 88-colour build : 16..79 = 4x4x4 cube with levels 0x00, 0x8b, 0xcd, 0xff,
                    index = 16 + 16*r + 4*g + b;
                    80..87 = 8 grays 0x2e, 0x5c, 0x73, 0x8b, 0xa2, 0xb9, 0xd0, 0xe7
                    (88colres.pl: level = 23.18181818 * (i + (i > 0 ? 1 : 0)) + 46.36363636, truncated)

This module imports nothing from urwid (and nothing but the stdlib).
"""

from __future__ import annotations

from fractions import Fraction

BASIC_NAMES = (
    "black",
    "dark red",
    "dark green",
    "brown",
    "dark blue",
    "dark magenta",
    "dark cyan",
    "light gray",
    "dark gray",
    "light red",
    "light green",
    "yellow",
    "light blue",
    "light magenta",
    "light cyan",
    "white",
)

# XTerm-col.ad defaults resolved through X11 rgb.txt
BASIC_RGB = (
    (0, 0, 0),  # black
    (205, 0, 0),  # red3
    (0, 205, 0),  # green3
    (205, 205, 0),  # yellow3
    (0, 0, 238),  # blue2
    (205, 0, 205),  # magenta3
    (0, 205, 205),  # cyan3
    (229, 229, 229),  # gray90
    (127, 127, 127),  # gray50
    (255, 0, 0),  # red
    (0, 255, 0),  # green
    (255, 255, 0),  # yellow
    (0x5C, 0x5C, 0xFF),  # rgb:5c/5c/ff
    (255, 0, 255),  # magenta
    (0, 255, 255),  # cyan
    (255, 255, 255),  # white
)


def _cube256_level(i: int) -> int:
    return 0 if i == 0 else 55 + 40 * i


def _gray88_level(i: int) -> int:
    # 88colres.pl:  $level = ($gray * 23.18181818) + 46.36363636;  if ($gray > 0) { $level += 23.18181818; }
    lv = Fraction(2318181818, 100000000) * i + Fraction(4636363636, 100000000)
    if i > 0:
        lv += Fraction(2318181818, 100000000)
    return int(lv)


CUBE_LEVELS = {256: tuple(_cube256_level(i) for i in range(6)), 88: (0x00, 0x8B, 0xCD, 0xFF)}
GRAY_LEVELS = {256: tuple(8 + 10 * i for i in range(24)), 88: tuple(_gray88_level(i) for i in range(8))}

assert CUBE_LEVELS[256] == (0, 95, 135, 175, 215, 255)
assert GRAY_LEVELS[88] == (0x2E, 0x5C, 0x73, 0x8B, 0xA2, 0xB9, 0xD0, 0xE7), GRAY_LEVELS[88]
assert GRAY_LEVELS[256][0] == 8 and GRAY_LEVELS[256][-1] == 238 and GRAY_LEVELS[256][13] == 0x8A

CUBE_START = 16


def cube_side(n: int) -> int:
    return len(CUBE_LEVELS[n])


def gray_start(n: int) -> int:
    return CUBE_START + cube_side(n) ** 3


def _palette(n: int) -> tuple:
    lv = CUBE_LEVELS[n]
    out = list(BASIC_RGB)
    out += [(r, g, b) for r in lv for g in lv for b in lv]
    out += [(v, v, v) for v in GRAY_LEVELS[n]]
    assert len(out) == n
    return tuple(out)


PALETTE = {256: _palette(256), 88: _palette(88)}


def cube_index(n: int, ri: int, gi: int, bi: int) -> int:
    s = cube_side(n)
    return CUBE_START + (ri * s + gi) * s + bi


def cube_coords(n: int, index: int):
    """(ri, gi, bi) for a palette index inside the cube, else None"""
    s = cube_side(n)
    if not CUBE_START <= index < gray_start(n):
        return None
    k = index - CUBE_START
    return (k // (s * s), (k // s) % s, k % s)


def gray_candidates(n: int):
    """the gray scale a 'gray value' may degrade to: cube black, the gray ramp, cube white,
    as [(level, palette index)] in ascending level order"""
    s = cube_side(n)
    out = [(0, cube_index(n, 0, 0, 0))]
    out += [(v, gray_start(n) + i) for i, v in enumerate(GRAY_LEVELS[n])]
    out.append((255, cube_index(n, s - 1, s - 1, s - 1)))
    return out


def nearest_set(levels, value, slack=0):
    """indices i of `levels` whose distance to `value` is minimal (all of them on a tie).
    `value` and `slack` may be Fractions; with slack > 0 every index whose distance exceeds
    the minimum by at most `slack` is accepted as well."""
    d = [abs(Fraction(lv) - value) for lv in levels]
    m = min(d)
    return frozenset(i for i, x in enumerate(d) if x <= m + slack)


def nearest_cube_levels(n: int, value, slack=0):
    return nearest_set(CUBE_LEVELS[n], value, slack)


def nearest_gray_indices(n: int, value, slack=0):
    """palette indices (black / ramp / white) nearest to the 0..255 gray `value`"""
    cand = gray_candidates(n)
    pos = nearest_set([lv for lv, _ in cand], value, slack)
    return frozenset(cand[p][1] for p in pos)


def nearest_palette_indices(n: int, rgb, start=CUBE_START):
    """indices >= start of the whole palette with minimal squared Euclidean distance to rgb"""
    pal = PALETTE[n]
    d = [sum((a - b) ** 2 for a, b in zip(pal[i], rgb)) for i in range(start, n)]
    m = min(d)
    return frozenset(start + i for i, x in enumerate(d) if x == m)
