#!/bin/sh
# Run the repository's pinned doctest baseline (106 tests) and the tests/ directory
# (minus the pty-spawning test_vterm.py which hangs without a tty) with the hook guard OFF.
REPO=${1:-/repo}
cd "$REPO" || exit 3
unset URWID_VERIF
echo "== baseline doctests"
timeout -k 5 600 /venv/bin/python -m pytest -q -p no:cacheprovider --timeout=900 --continue-on-collection-errors -o addopts="--doctest-modules" 2>&1 | tail -6
echo "== tests/ (minus test_vterm.py)"
timeout -k 5 600 /venv/bin/python -m pytest tests -p no:cacheprovider --timeout=20 -o addopts="" --deselect tests/test_vterm.py -W ignore 2>&1 | grep -E "^(FAILED|ERROR)|=====.*(passed|failed|error)" | tail -8
