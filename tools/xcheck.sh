#!/bin/sh
# usage: xcheck.sh <seeded-name> <property>
name=$1; prop=$2; d=/verif/seeded/$name
S=/tmp/x_${name}_$$; mkdir -p $S; cp -r /repo/urwid $S/; (cd $S && patch -p1 -s --fuzz=3 < $d/patch.diff) || { echo patchfail; exit 1; }
cd /verif; out=$(VERIF_REPO=$S ./check $prop quick 2>&1 | grep -v conda)
echo "$name vs $prop: violations=$(echo "$out" | grep -c '^VIOLATION') :: $(echo "$out" | grep '^VIOLATION' | head -1 | sed 's/.*sig=//' | cut -c1-160)"
rm -rf $S
