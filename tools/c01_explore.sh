#!/bin/sh
# Explore brand-new C01 workloads (seeds outside the calibrated pool) and list signatures not yet in the known list.
# usage: tools/c01_explore.sh <first-seed> <last-seed> [quick|thorough]
cd /verif || exit 3
for s in $(seq "$1" "$2"); do C01_RAW_SEED=1 VERIF_SEED=$s ./check C01 "${3:-quick}" 2>&1 | grep "^VIOLATION" | cut -c1-220; done
