#!/bin/sh
# usage: tools/apply_fix.sh <fix.diff>   -- apply to /repo, run repo tests, commit with the message in the '# ' header lines
F=$(realpath "$1")
cd /repo || exit 3
git diff --quiet || { echo "repo dirty"; exit 3; }
awk '/^#/{sub(/^# ?/,""); print; next} {exit}' "$F" | awk 'NR==1{print; getline nxt; if (nxt != "") print ""; print nxt; next} {print}' > /tmp/fixmsg.$$
patch -p1 --no-backup-if-mismatch < "$F" || { echo PATCH-FAILED; git checkout -- .; exit 1; }
find . -name '*.orig' -o -name '*.rej' | grep -v "^./.git" | xargs -r rm -f
out=$(/verif/tools/repo_tests.sh 2>&1 | grep -v conda | tail -4)
if ! (echo "$out" | grep -q "106 passed" && echo "$out" | grep -q "273 passed"); then echo "$out"; echo "retrying once (timing-sensitive tests under load)"; out=$(/verif/tools/repo_tests.sh 2>&1 | grep -v conda | tail -4); fi
echo "$out"
echo "$out" | grep -q "106 passed" && echo "$out" | grep -q "273 passed" || { echo "TESTS CHANGED - not committing"; exit 2; }
git add -A && git commit -q -F /tmp/fixmsg.$$ && git log --oneline | head -1
rm -f /tmp/fixmsg.$$
