#!/venv/bin/python
"""Regenerate MANIFEST.json from the table below (keeps it schema-valid at all times)."""
import json, os, subprocess, sys

V = os.path.dirname(os.path.dirname(os.path.abspath(__file__)))
ALL = [f"C{i:02d}" for i in range(1, 21)]

# id -> (category, technique, text, note, design_ref)
CHECKS = {
    "C16": (
        "exploration",
        "reference-model monitor: built-in list + position-shadow oracle evaluated after every operation; exhaustive depth-1/2(/3) op universe + random histories",
        "Every op of a history is applied to the real monitored list and to a built-in list; contents, exception type, focus "
        "(via a shadow list of position markers), modified/focus callbacks are compared after each op. Exhaustive over all "
        "(len<=5, focus) states x ~8k ops at depth 1, reduced universes at depth 2/3, random histories beyond. Held-on-observed, not a proof.",
        "Trusts CPython list semantics as the model; items assigned are fresh objects; 'following item' rule as in DESIGN C16.",
        "DESIGN.md §3 C16",
    ),
    "C02": (
        "exploration",
        "reference-model monitor: every generated canvas expression tree is evaluated on the real canvas classes and on an independent cell-grid model; cells, size, cursor/pop-up, operand fingerprints, content_delta application and finalized-mutator refusal compared per tree",
        "Random expression trees over TextCanvas/SolidCanvas leaves and all composition operators (combine, join with pad/trim, overlay, pad/trim four sides, "
        "trim, trim_end, attribute maps, re-wrap, in-place or wrapped, finalize anywhere) in three encodings; each tree's flattened content() is compared "
        "cell-for-cell with the grid model, every canvas created on the way is fingerprinted and re-verified after all later operations, content_delta "
        "against a sibling tree sharing leaf objects is applied to the old rows and compared with the new content. Held-on-observed over ~10^4 (quick) / ~10^6 (thorough) trees.",
        "Trusts vmon/models/grid.py (cell semantics: cut wide char -> space with its attribute; zero-width chars ride on the previous cell). Leaf attribute runs are character-aligned; overlay tops are CompositeCanvas.",
        "DESIGN.md §3 C02",
    ),
    "C06": (
        "exploration",
        "runtime monitor over mutation histories: same-tree shadow render (cache dictionaries swapped out and back) sandwiching every cached render, plus a ledger fingerprinting every canvas the cache stores and re-verifying live ones after each step",
        "Histories of public mutators, root key/mouse input, gc of held canvases and renders/rows at alternating sizes and focus values on generated trees "
        "of 20 widget classes; at each render step the tree is rendered fresh, cached, fresh; where the two fresh renders agree the cached one must equal "
        "them cell-for-cell and in cursor; cached row counts must equal fresh ones; every canvas stored by the cache for a widget of the tree is "
        "fingerprinted and must never change. A divergence is attributed to the deepest widget whose cached canvas differs from its fresh render. Held-on-observed.",
        "Trusts the harness's dictionary swap to emulate 'cache emptied first' (the real cache survives, so stale entries accumulate as in a long session). "
        "Only property-setter / method mutators are used; histories where a mutator or a cache-less render raises are abandoned.",
        "DESIGN.md §3 C06",
    ),
    "C14": (
        "exploration",
        "offline history checker against a reference model: JSON histories of connect/disconnect/emit/kill/gc executed on the real Signals machinery with uniquely identified handler calls logged at the handler boundary, judged by vmon/models/signals_ref.py",
        "Exhaustive core (1-3 handlers, 4 in thorough, x 9 per-handler behaviours x disconnect-by-key/args x module API / fresh Signals() x weak args / none x every <=2-op prefix) "
        "plus random histories over 3 senders x 2 names with nested emits, weak-argument and sender death at every history point followed by gc.collect(), and the real widget "
        "senders (Button, CheckBox, Edit, list walkers). Clauses: exactly-once, connection order, argument composition, never-after-disconnect / dead weak arg, result truthiness, "
        "no-op disconnect, rejection of unregistered names, liveness of senders and weak args. Held-on-observed.",
        "Handlers connected or disconnected during an emit are optional (statement constrains only handlers connected throughout). Disconnect by args removes the earliest identical connection. Handlers never raise.",
        "DESIGN.md §3 C14, §8",
    ),
    "C18": (
        "exploration",
        "reference-model monitor: every (foreground, background, depth) case is classified by an independent reader of the documented colour language and xterm palette tables (vmon/models/xterm_colors.py) and AttrSpec's observable results are compared clause by clause; exhaustive over the finite token domains",
        "Exhaustive: all basic names, h0..h255, #000..#fff, g0..g100, g#00..g#ff at every depth, every ordered arrangement of the 64 setting subsets; per-component 0..255 sweeps of #rrggbb; "
        "quick samples #000000..#ffffff, thorough sweeps all 2**24 values in bit-reversed stride passes (a budget overrun leaves a uniform sample; below 2**24/64 swept values the run is inconclusive). "
        "Clauses: accept/reject with AttrSpecError only, observers never raise, nearest palette entry, RGB tables, smallest colour depth, settings, round trip, hash, idempotent descriptions.",
        "'Unicode of the colour tables' = xterm's 256colres/88colres definitions as re-derived in xterm_colors.py. Strings readable only through Python int() leniency (h+5, h007) are a grey zone: accept or AttrSpecError, nothing else.",
        "DESIGN.md §3 C18, §8",
    ),
    "C19": (
        "exploration",
        "invariant monitor with spy children: partition arithmetic of Columns / Pile / Padding / Filler / Overlay / GridFlow is driven over exhaustive small-integer option spaces and every clause of the statement is asserted on what the spy children were actually handed and on glyph positions of the rendered canvas",
        "Exhaustive (shuffled, so a budget overrun leaves a uniform sample) over <=4 columns/items x given/pack/weight kinds x dividechars x min_width x focus x sizes 1..24, align/valign kinds x percentages x "
        "width/height kinds x margins for Padding/Filler/Overlay, GridFlow cell geometry; random beyond. One counter per clause; inputs for which urwid emits a WidgetWarning are skipped_invalid.",
        "Statement covers given >= 1 and positive weights; zero weights / zero given only for 'no exception but the documented one, no negative size'. Proportionality not judged when min_width binds. 'Remaining space otherwise' accepts the documented squeeze-margins-first behaviour.",
        "DESIGN.md §3 C19, §8",
    ),
    "C03": (
        "exploration",
        "reference-model monitor: the layout structure returned by the real layout object and the rows Text renders are judged by an independent layout oracle (own UTF-8 / double-byte decoder + wcwidth); exhaustive over short strings of a 6-symbol alphabet, random beyond",
        "Exhaustive strings (length <=3 always, 4-5 quick / up to 7 thorough as far as the time budget allows; completion is reported in counters) over {a, b, space, newline, wide, combining} x widths 1-6 x "
        "4 wrap modes x 3 aligns x str and bytes x utf-8 / euc-jp / narrow, plus random strings to length 60 at widths to 40, on long-lived widgets reconfigured through set_text / wrap / align. Clauses: shown ranges disjoint and "
        "increasing, every omitted character justified, fit, 'any' fill, 'space' breaks, alignment pad, rows() == rendered lines, unrenderable text -> one empty line, rendered bytes and charset flags == expected row.",
        "A word is a maximal run of non-space narrow characters; a boundary next to a double-width character is a legal break; ellipsis mark may be any of '…', '...', '..', '.'; control characters and characters whose encoded length differs from their width are outside the alphabet.",
        "DESIGN.md §3 C03, §8",
    ),
    "C05": (
        "exploration",
        "runtime monitor at Screen.parse_input / get_input with a virtual completion timer: every byte stream is delivered whole and under enumerated cut points x timer firings; a left-to-right partition invariant, an independent expected-event decoder for well-formed tokens and a metamorphic whole-vs-fragmented equality decide each case",
        "Streams of well-formed tokens (all 468 table entries, X10 and SGR mouse reports over all button/modifier values and many coordinates, cursor-position reports, UTF-8 and double-byte characters, every byte 0-255) and garbage "
        "(malformed / truncated escapes, invalid UTF-8, stray lead bytes); all single cuts and cut pairs for streams <=12 bytes x fire / no-fire, random k-cuts beyond; three encodings; the blocking get_input path under a virtual wait stub and a real pipe.",
        "Expected names come from the documented input_sequences table (used as data) and from the xterm mouse protocol / ECMA-48 as re-implemented in vmon/models/c05_decoder.py. ESC followed by a report or by a 'meta' key, and reports textually equal to a table entry, are ambiguous and not judged for naming.",
        "DESIGN.md §3 C05, §8",
    ),
    "C11": (
        "exploration",
        "reference-model monitor: str_util / util width functions are called on every boundary pair, target column and column range of generated texts and compared with vmon/models/width.py (wcwidth tables + strict UTF-8 / double-byte segmentation); exhaustive per Unicode scalar value in thorough",
        "Every Unicode scalar value (thorough; quick: all below U+3000, table edges and a seed-offset stride) in each encoding whose alphabet contains it; exhaustive short sequences over class representatives incl. malformed UTF-8 and "
        "double-byte lead/trail bytes, random texts; clauses for calc_width (additivity), calc_text_pos, move_next/prev_char (inverse laws), is_wide_char, within_double_byte, decode_one(_right), calc_trim_text, trim_text_attr_cs, apply_target_encoding.",
        "Width = max(0, wcwidth); a malformed UTF-8 byte is one column; wide-mode strings with stand-alone 0x80/0xFF and empty trim ranges inside a wide character are not judged.",
        "DESIGN.md §3 C11, §8",
    ),
    "C12": (
        "fault_enumeration",
        "fault injection over recorded sessions: a scripted MainLoop session on a real pty is run fault-free to number the callback invocations, then once per (invocation index x {ExitMainLoop, unique exception}); an offline checker over the callback log and a VT100 model fed with the bytes written to the pty decide ordering, redraw, exit and restoration",
        "Sessions (keys, SGR mouse, focus/paste sequences, real SIGWINCH, 2 alarms, watch_pipe, watch_file, pop-up open/close) x 8 injection sites x 6 event loops x screen with / without hook_event_loop x pop_ups; each in a process forked "
        "from a clean template interpreter (a sample is repeated in brand-new interpreters and must agree). Restoration is read from the terminal model (buffer, cursor, mouse/paste/focus modes, charset, SGR), termios, signal handlers and screen.started.",
        "Callbacks already queued in the loop iteration in which the fault occurs may still run (the statement fixes only how run() ends). Redraw rule in logical form (>= 50 ms later alarm) confirmed by re-execution. quick enumerates select and asyncio fully, other loops at first/last/idle points.",
        "DESIGN.md §3 C12, §8",
    ),
    "C15": (
        "exploration",
        "runtime invariant monitor + differential monitor: TermCanvas is fed generated byte streams (any chunking, resizes, view scrolling) with grid/cursor/region/reply invariants checked after every operation, and in lock-step with an independent VT100 model (vmon/models/vt.py) on the undisputed-core subset; mismatches are classified by named model quirks",
        "Part A: grammar of well-formed and malformed CSI/OSC/charset sequences, truncated/invalid UTF-8, C0/C1, parameters 0/missing/huge, six encodings, focus on/off, resize to any size >= 1x1, scrolled-back view shape and content. "
        "Part B: model-aware generator over print/autowrap/CR/LF/BS/CUP/CUx/EL/ED/ICH/DCH/IL/DL/DECSTBM/IND/RI/NEL/SGR; glyph, cursor, scrollback, replies and style of printed cells compared after every op. Part S: SGR state sequences.",
        "vt.py is written from the xterm ctlseqs / VT100 manual; disputed corners (IL/DL cursor column, BCE of erased cells, scrollback from sub-regions) are excluded or aligned. Double-width glyphs and the 'utf-8' spelling of the encoding are outside part B.",
        "DESIGN.md §3 C15, §8",
    ),
    "C17": (
        "exploration",
        "reference-model monitor in three stages: markup -> canvas (pairwise-distinct characters identify each cell's source), attribute-map chains -> canvas (positional fold model), palette -> SGR bytes decoded by the VT model and compared with an independent parse of the palette strings",
        "(a) nested markup over distinct-character texts incl. wide/multi-byte/DEC glyphs through Text and Edit at widths 1-30 x 4 wraps x 3 aligns x 4 encodings; (b) chains of AttrMap/AttrWrap/fill_attr(_apply) around Pile/Columns with mutations between renders; "
        "(c) every palette entry form x 5 colour depths x bright-is-bold, ordered attribute pairs, aliases, undefined names, AttrSpec objects, drawn through a started raw Screen.",
        "The blank standing in for a cut wide character and the ellipsis may carry None or the adjoining character's attribute (the statement does not decide it). Colour rounding is C18's subject (slack accepted).",
        "DESIGN.md §3 C17, §8",
    ),
    "C10": (
        "exploration",
        "reference-model monitor over key/click histories: every operation is applied to the real Edit / IntEdit / IntegerEdit / FloatEdit and to an independent reference editor (vmon/models/editor_ref.py); text, offset, return value, signal log, character-boundary and cursor-cell clauses compared after every operation",
        "Sessions of ~30 keys / clicks / resizes / renders over captions and texts with wide, combining, newline characters, str and bytes in three encodings, widths 1-20, wrap space/any/clip, alignments, multiline / allow_tab / mask, numeric variants "
        "with their option ranges; a systematic sweep of small states plus random sessions. Display rows for up/down/home/end/click come from a fresh twin Edit built from the model state, interpreted by the model's own code.",
        "Return value of a used key that cannot act, exact tab width and the preferred column after a click are not judged. Ellipsis wrap, highlight and custom layouts are not exercised.",
        "DESIGN.md §3 C10, §8",
    ),
    "C13": (
        "exploration",
        "offline contract checker over recorded histories: generated programs of alarm / watch / idle / remove calls (before run() and from inside callbacks) run on each real event loop with every API call and callback entry recorded at the client boundary; the select loop additionally under a virtual clock and fake selector with enumerated readiness schedules, ZMQ under a fake poller reproducing pyzmq's timeout truncation",
        "Directed, random and enumerated programs (all schedules of <=5 events complete, 6-7 events 92%) on select / asyncio / tornado / twisted / trio / zmq; 14 clauses (alarm once / not early / order / remove / remove again, watch readable / after remove / served, "
        "idle before quiescence / after remove, ExitMainLoop silent, exception re-raised as the same object, not re-raised by a second run(), no foreign exception, no API call raises). Real-clock violations must reproduce in a re-execution.",
        "'Quiescent' = the loop entered its OS wait primitive asking for >= 10 ms (recorded by a wrapper on selector.select / zmq poll / reactor.doIteration / a trio Instrument); wait durations are never used for verdicts. Ordering and idle rules are judged within one run() segment. glib is not installed.",
        "DESIGN.md §3 C13, §8",
    ),
    "C08": (
        "exploration",
        "invariant monitor over histories with spy leaves: after every operation of a generated history (keys, button-1 presses, valid and invalid focus assignments, set_focus_path, contents edits, Frame/Overlay part replacement) every container of the tree is walked and each clause of the statement asserted; key offers are judged at the moment they are made, from the spies' logs",
        "Nestings (depth <= 4) of Pile / Columns / GridFlow / Frame / Overlay / ListBox over flow and box spies (unique glyph per instance and focus flag) with a plain-Python shadow of what the edits put where; clauses: contents match the shadow, focus valid / None when empty, "
        "IndexError on invalid assignment with nothing changed, keys offered only along the focus path, unhandled key returned unchanged, arrows land on selectable children, selectable() == any(child) after edits, only the focus path rendered with focus, save/restore of the focus path.",
        "ListBox is exempt from 'arrows only onto selectable children' (documented: a scrolling ListBox focuses unselectable widgets) and may complete a deferred focus change while a key is offered. Crashes of render/keypress are by-catch (C01/C07 territory), counted, history cut. Histories are cut at the first WidgetWarning.",
        "DESIGN.md §3 C08, §8",
    ),
    "C04": (
        "exploration",
        "runtime monitor over frame histories: every byte a really started raw Screen (on a pty) writes is fed to an independent VT100/xterm model; after each draw_screen every cell (glyph after charset translation, colours, style flags), the cursor, insert mode and scroll count are compared with the canvas, and at the end of each history with clear() + full repaint; HTML fragments are parsed back and compared row by row",
        "Histories of 1-12 frames of directly built canvases (adversarial last-row / last-column content, wide characters, DEC and IBM-charset runs, undefined names, AttrSpec objects) and rendered widget trees at 1x1..40x12, interleaved with clear(), real resize (TIOCSWINSZ + SIGWINCH handler; "
        "terminal model refilled with garbage cells), one-row mutations and same-object redraws; 5 colour depths, both back_color_erase settings, utf-8 and single-byte encodings, alternate-buffer and partial-screen modes.",
        "Expected style = own parse of the palette strings (vmon/models/c04_style.py); bold+colour<8 folded with bright under fg_bright_is_bold; on blank cells only bg/underline/standout/strikethrough compared. Double-byte output encodings and TERM-specific branches are not covered.",
        "DESIGN.md §3 C04, §8",
    ),
    "C07": (
        "exploration",
        "invariant monitor over histories with spy items: every row of every list item carries a glyph unique to (item, row), so after each render the canvas is matched against the concatenation of the items' own rows and the window, focus, cursor and mouse clauses are asserted directly",
        "Lists of 0-12 spy flow items (heights 0/1/2/3/5/12/25, selectable or not, cursor protocol), real multi-line Edit and 0-row Pile items; SimpleListWalker, SimpleFocusListWalker and two dict-backed custom walkers (API v1 and v2); boxes (3..20)x(1..10); histories of keys, mouse press/release/wheel, "
        "set_focus with every coming_from, set_focus_valign, resize, walker insert/delete/replace/clear, focus-flag toggles. The last canvas is kept alive so renders are really served from the cache.",
        "A 0-row focus item has no row to show: the focus-visible clause is skipped for it (all others apply). wrap_around walkers are not used. All raise clauses are merged by exception site.",
        "DESIGN.md §3 C07, §8",
    ),
    "C20": (
        "exploration",
        "invariant monitor over histories with spy content: every row of the wrapped content starts with a glyph unique to that row and ends with an edge marker, so after every operation the rendered frame is matched against 'no bar, content at width w' or 'bar column trough/thumb/trough, content at width w - bar' and each clause of the statement asserted",
        "Scrollable, ScrollBar(Scrollable) and ScrollBar(ListBox) over Text, row spies (flow / wrapping / fixed), Piles of spies / Text / Edit, list boxes; views (2..20)x(1..10), both sides, bar width 1-3, custom thumb/trough characters; histories of scroll keys, wheel events, set_scrollpos(any int incl. negative and 2**63), "
        "resizes and content changes; clauses: slice, reported position, bar presence, parts sum to the view height, thumb top == 0 iff p == 0, thumb monotone in p (per content/size across the history), handed width, handled events do not scroll, no exception. The last frame is kept alive so cache hits are judged.",
        "'More rows than the view' is judged at the width actually handed to the content (a Text can be taller only at full width: a bar beside fitting content is accepted there). The handled-event clause is skipped when the content shows a cursor. Exceptions from inside listbox.py at a valid size are out of scope (C07).",
        "DESIGN.md §3 C20, §8",
    ),
    "C09": (
        "exploration",
        "runtime monitor with spy leaves: every leaf fills its canvas with a glyph unique to the instance and logs every mouse_event / move_cursor_to_coords call, a wrapper on the render-size hook records the size each widget got; for every cell on which a leaf is drawn an event is injected at the root and the recipient and its coordinates are compared with what the canvas shows; cursor coordinates without rendering are compared with the focused render",
        "Generated trees (depth <= 3 quick / 5 thorough) of Pile, Columns, Frame, Filler, Padding, Overlay, BoxAdapter, LineBox, AttrMap, GridFlow, ListBox (and ScrollBar / Scrollable) around spies and real Edit / SelectableIcon / Button / CheckBox leaves, at sizes where the fit precondition holds by observation; "
        "clauses c1 get_cursor_coords == render(focus).cursor for every container / decoration, c2 non-focus-changing events at every leaf cell reach exactly that leaf with translated coordinates (c2b: button-1 presses on fresh trees), c3 move_cursor_to_coords succeeds iff the leaf accepts the translated cell and the cursor row is the requested row.",
        "Cells where no leaf is drawn are not judged. Overlay's bottom widget is an inert backdrop by documented design (an event reaching no leaf there is counted, not judged). The size argument handed to a leaf is counted, not judged. Containers above Scrollable/ScrollBar are skipped for c1 (no get_cursor_coords).",
        "DESIGN.md §3 C09, §8",
    ),
    "C01": (
        "exploration",
        "runtime contract monitor on every widget of generated trees: the module-level render-size hook (validate_size) that both render wrappers call is replaced by a monitor that sees (widget, size, canvas) for every cache-missing render of every widget class, plus a root driver that evaluates rows()/pack() first and then renders each reported sizing mode at many sizes and both focus values",
        "Typed grammar over all 33 bundled widget classes (vmon/gen/trees.py: only child/option combinations the classes' sizing() rules document, depth <= 5, three text alphabets, str and bytes) x sizes {1,2,3,5,8,13,40}^2 (box), 1..13 and 40 (flow), () (fixed) x focus x utf-8 / euc-jp / ascii; "
        "clauses: render succeeds; box -> exact cols x rows; flow -> cols and rows() rows; fixed -> pack(); every content row is cols() columns wide (decoded per encoding); len(content) == rows(); cursor inside. A finding is blamed on the innermost widget that violates while handed an in-domain size, and shrunk.",
        "Trees or (tree, size) pairs for which urwid emits a WidgetWarning are skipped (the library's own misuse diagnostics define the domain); sizing() is taken at its word; every (size, focus) evaluation builds a fresh tree with the cache cleared (state left by earlier renders is C06's subject). Signatures are C01|<blamed class>|<clause or raise site>.",
        "DESIGN.md §3 C01, §8",
    ),
}

NA_REASON = "check not built yet in this round (see DESIGN.md §6 build order); no claim is made"


def main():
    repo_commits = subprocess.run(["git", "-C", "/repo", "log", "--format=%h %s"], capture_output=True, text=True).stdout.splitlines()
    hook_commits = [l.split()[0] for l in repo_commits if l.split(" ", 1)[1].startswith("verif-hook:")]
    m = {
        "version": 1,
        "setup_cmd": "/venv/bin/python -B -c \"import sys; sys.path.insert(0, '/repo'); import urwid, wcwidth, vmon.core\"",
        "hooks": {
            "guard": "URWID_VERIF",
            "enable": "no in-source hooks: monitors are installed from the harness at import time (module globals, class attributes, metaclass wrappers); "
            "URWID_VERIF=1 is exported by ./check and reserved for future guarded hooks",
            "baseline_off_cmd": "cd /repo && env -u URWID_VERIF /venv/bin/python -m pytest -ra -q -p no:cacheprovider --timeout=900 --continue-on-collection-errors",
            "source_commits": hook_commits,
            "add_only": True,
        },
        "engines": [
            {
                "name": "vmon",
                "path": "vmon/",
                "serves_properties": sorted(CHECKS),
                "kind_free_text": "python runtime-monitoring harness: seeded workloads, reference-model monitors, invariant hooks, offline history checkers; ./check <ID> [quick|thorough] [--replay PATH]",
            }
        ],
        "checks": [],
        "not_applicable": [],
        "notes": "Family: runtime monitoring. urwid is pure Python and single-threaded, so compiler sanitizers / race detectors have nothing to instrument (DESIGN.md §0). "
        "Verdicts are three-valued: exit 0 held-on-observed (KNOWN-FINDING lines possible), exit 1 VIOLATION, exit 2 INCONCLUSIVE (monitor not reached / watchdog).",
    }
    for pid in ALL:
        if pid in CHECKS:
            cat, tech, text, note, ref = CHECKS[pid]
            m["checks"].append(
                {
                    "property_id": pid,
                    "quick_cmd": f"./check {pid} quick",
                    "thorough_cmd": f"./check {pid} thorough",
                    "evidence_file": f"evidence/{pid}.json",
                    "replay_cmd_template": f"./check {pid} --replay {{path}}",
                    "engine": "vmon",
                    "level_claimed": {"category": cat, "text": text, "design_ref": ref},
                    "level_note": note,
                    "technique": tech,
                }
            )
        else:
            m["not_applicable"].append({"property_id": pid, "reason": NA.get(pid, NA_REASON)})
    with open(os.path.join(V, "MANIFEST.json"), "w") as f:
        json.dump(m, f, indent=1)
        f.write("\n")
    try:
        import jsonschema

        jsonschema.validate(m, json.load(open("/root/.vp/MANIFEST.schema.json")))
        print("MANIFEST valid;", len(m["checks"]), "checks")
    except ImportError:
        print("jsonschema not available; not validated")


NA = {}
if __name__ == "__main__":
    main()
