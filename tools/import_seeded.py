#!/usr/bin/env python3
"""usage: import_seeded.py CNN  -- copy /tmp/seed_out/CNN/{A,B} into /verif/seeded/CNN-A, CNN-B with meta.json"""
import json, os, shutil, sys
pid = sys.argv[1]
wave = sys.argv[2] if len(sys.argv) > 2 else "a"     # "b": second wave, stored as CNN-C / CNN-D
base = {"a": "/tmp/seed_out", "b": "/tmp/seed_outb", "c": "/tmp/seed_outc", "d": "/tmp/seed_outd", "e": "/tmp/seed_oute", "f": "/tmp/seed_outf", "g": "/tmp/seed_outg", "h": "/tmp/seed_outh"}[wave]
names = {"a": {"A": "A", "B": "B"}, "b": {"A": "C", "B": "D"}, "c": {"A": "E", "B": "F"}, "d": {"A": "G", "B": "H"}, "e": {"A": "I", "B": "J"}, "f": {"A": "K", "B": "L"}, "g": {"A": "M", "B": "N"}, "h": {"A": "O", "B": "P"}}[wave]
for k in ("A", "B"):
    src = f"{base}/{pid}/{k}"
    if not os.path.exists(f"{src}/patch.diff"):
        print("missing", src); continue
    dst = f"/verif/seeded/{pid}-{names[k]}"
    os.makedirs(dst, exist_ok=True)
    for f in ("patch.diff", "demo.py", "notes.md"):
        if os.path.exists(f"{src}/{f}"):
            shutil.copy(f"{src}/{f}", f"{dst}/{f}")
    notes = open(f"{src}/notes.md").read() if os.path.exists(f"{src}/notes.md") else ""
    meta = {"property": pid, "origin": "sub-agent given only the property text and a scratch worktree" + {"a": "", "b": " (second wave: told which mechanisms the first wave had used, asked for different ones)", "c": " (third wave: told the mechanisms of both earlier waves and what the checks had become good at)", "d": " (fourth wave: told the mechanisms of the three earlier waves and what the checks had become good at; asked for rare values, three-way combinations, repetition, re-parenting, duck-typed user objects, less prominent clauses)", "e": " (fifth wave: told the mechanisms of the four earlier waves and what the checks had become good at; asked for overlooked clauses, two rare conditions at once, order dependence, accessor-only defects, rare parameter values, argument aliasing, second use in another role)", "f": " (sixth wave: told the mechanisms of the five earlier waves and what the checks had become good at; asked for Python-level traps, both boundaries at once, less central files, unusual global settings, numerical corner cases)", "g": " (seventh wave: change A is a partial, non-revert regression of one of the repository's recent fix: commits relevant to the property; change B free)", "h": " (eighth wave: both changes are partial, non-revert regressions of two different recent fix: commits relevant to the property)"}[wave], "needs_to_manifest": "see notes.md", "verified": {}}
    json.dump(meta, open(f"{dst}/meta.json", "w"), indent=1)
    print("imported", dst)
