#!/usr/bin/env python3
"""usage: mkmutant.py <out.diff> <repo-relative-file> <<< 'OLD\n=====\nNEW'   -- make a unified diff replacing OLD by NEW (exactly once)"""
import difflib, sys
out, rel = sys.argv[1], sys.argv[2]
old, new = sys.stdin.read().split("\n=====\n")
new = new.rstrip("\n") + "\n" if new.strip() else ""
old = old.rstrip("\n") + "\n"
src = open(f"/repo/{rel}").read()
assert src.count(old) == 1, f"OLD occurs {src.count(old)} times"
dst = src.replace(old, new)
d = difflib.unified_diff(src.splitlines(True), dst.splitlines(True), f"a/{rel}", f"b/{rel}")
open(out, "w").write("".join(d))
print("wrote", out)
