#!/bin/sh
# usage: tools/run_mutants.sh CNN [tier]  -- apply each mutants/CNN/*.diff to a scratch copy and run the check against it
ID=$1; TIER=${2:-quick}
cd /verif || exit 3
for d in mutants/$ID/*.diff; do
  S=/tmp/mut_${ID}_$$; rm -rf $S; mkdir -p $S; cp -r /repo/urwid $S/
  if ! (cd $S && patch -p1 -s --fuzz=3 < /verif/$d) >/dev/null 2>&1; then echo "$d: PATCH-FAILED"; rm -rf $S; continue; fi
  out=$(VERIF_REPO=$S VERIF_BUDGET=${MUT_BUDGET:-10} ./check $ID $TIER 2>&1 | grep -v conda)
  rc=$?
  nv=$(echo "$out" | grep -c "^VIOLATION")
  first=$(echo "$out" | grep "^VIOLATION" | head -2 | sed 's/.*sig=//' | cut -c1-150 | tr '\n' ';')
  inc=$(echo "$out" | grep -c "^INCONCLUSIVE")
  echo "$d: violations=$nv inconclusive=$inc :: $first"
  rm -rf $S
done
