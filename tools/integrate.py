#!/usr/bin/env python3
"""usage: integrate.py CNN [--keep-proposed]  -- merge findings.d/CNN.txt into KNOWN_FINDINGS.txt.
Lines whose text mentions '(fix proposed' are dropped (their fix has been committed) unless --keep-proposed."""
import os, sys
pid = sys.argv[1]
keep = "--keep-proposed" in sys.argv
src = f"/verif/findings.d/{pid}.txt"
if not os.path.exists(src):
    print("no staged findings for", pid); sys.exit(0)
kept, dropped = [], 0
for line in open(src, encoding="utf-8"):
    if not line.startswith("known:"):
        continue
    if "fix proposed" in line and not keep:
        dropped += 1
        continue
    kept.append(line.rstrip("\n"))
with open("/verif/KNOWN_FINDINGS.txt", "a", encoding="utf-8") as f:
    for l in kept:
        f.write(l + "\n")
os.remove(src)
print(f"{pid}: merged {len(kept)} known lines, dropped {dropped} fixed")
