#!/bin/sh
# usage: tools/wave_in.sh CNN d   -- import a finished seeding wave for one property, verify both changes, run the check
p=$1; w=${2:-d}
case $w in h) L="O P";; g) L="M N";; f) L="K L";; e) L="I J";; d) L="G H";; c) L="E F";; esac
cd /verif
python3 tools/import_seeded.py $p $w >/dev/null
git -C /repo worktree remove --force /tmp/seed${w}_$p 2>/dev/null
for v in $L; do tools/verify_seeded.sh $p-$v 2>&1 | cut -c1-90; done
for v in $L; do tools/run_seeded.sh "$p-$v" 2>&1 | cut -c1-330; done
