#!/bin/sh
# usage: tools/run_seeded.sh [ID-glob] [tier]
# For each seeded/<name>/ (patch.diff, demo.py, meta.json): make a scratch copy of /repo's working tree,
# apply the patch, confirm the demo fails there (and passes on the unchanged tree), run the property's check
# against the scratch copy (VERIF_REPO), expect exit 1 + VIOLATION.  Scratch copies are removed afterwards.
PAT=${1:-*}; TIER=${2:-quick}
cd /verif || exit 3
for d in seeded/$PAT/; do
  [ -f "$d/patch.diff" ] || continue
  name=$(basename "$d")
  prop=$(python3 -c "import json,sys; print(json.load(open('$d/meta.json'))['property'])")
  S=/tmp/seeded_${name}_$$; rm -rf $S; mkdir -p $S; cp -r /repo/urwid $S/
  if ! (cd $S && patch -p1 -s --fuzz=3 < /verif/$d/patch.diff) >/dev/null 2>&1; then echo "$name: PATCH-FAILED"; rm -rf $S; continue; fi
  (cd $S && timeout 120 /venv/bin/python -B /verif/$d/demo.py >/dev/null 2>&1); demo_mut=$?
  (cd /repo && timeout 120 /venv/bin/python -B /verif/$d/demo.py >/dev/null 2>&1); demo_orig=$?
  out=$(VERIF_REPO=$S ${SEED_ENV:-} ./check $prop $TIER 2>&1 | grep -v conda)
  nv=$(echo "$out" | grep -c "^VIOLATION")
  inc=$(echo "$out" | grep -c "^INCONCLUSIVE")
  first=$(echo "$out" | grep "^VIOLATION" | head -2 | sed 's/.*sig=//' | cut -c1-140 | tr '\n' ';')
  verdict=MISSED; [ "$nv" -gt 0 ] && verdict=CAUGHT
  echo "$name: property=$prop demo(orig)=$demo_orig demo(mutated)=$demo_mut check=$verdict violations=$nv inconclusive=$inc :: $first"
  rm -rf $S
done
