#!/bin/sh
cd /verif
: > /tmp/c01_pool3_viol.txt
for s in $(seq 0 49); do
  out=$(VERIF_SEED=$s VERIF_BUDGET=150 ./check C01 quick 2>&1)
  echo "$out" | grep "^VIOLATION\|^INCONCLUSIVE" >> /tmp/c01_pool3_viol.txt
  echo "q-$s" >> /tmp/c01_pool3_viol.txt
done
for s in 0 1 2 3 4 5 6 7 8; do
  out=$(VERIF_SEED=$s ./check C01 thorough 2>&1)
  echo "$out" | grep "^VIOLATION\|^INCONCLUSIVE" >> /tmp/c01_pool3_viol.txt
  echo "th-$s" >> /tmp/c01_pool3_viol.txt
done
echo all-done >> /tmp/c01_pool3_viol.txt
