#!/bin/sh
# usage: tools/verify_seeded.sh <name>   -- confirm in a scratch worktree: patch applies, pinned tests unchanged, demo fails with / passes without
name=$1; d=/verif/seeded/$name
W=/tmp/vseed_$name; rm -rf $W; git -C /repo worktree add --detach $W HEAD -q || exit 3
cd $W
(/venv/bin/python -B $d/demo.py >/dev/null 2>&1); o=$?
git apply $d/patch.diff || { echo "$name: APPLY-FAILED"; cd /; git -C /repo worktree remove --force $W; exit 1; }
(/venv/bin/python -B $d/demo.py >/dev/null 2>&1); m=$?
t1=$(/venv/bin/python -m pytest -q -p no:cacheprovider --timeout=900 --continue-on-collection-errors 2>&1 | tail -1)
t2=$(timeout -k 5 600 /venv/bin/python -m pytest tests -p no:cacheprovider --timeout=20 -o addopts="" --deselect tests/test_vterm.py -W ignore 2>&1 | tail -1)
echo "$name: demo(orig)=$o demo(patched)=$m doctests=[$t1] tests=[$t2]"
cd /; git -C /repo worktree remove --force $W
python3 - "$name" "$o" "$m" "$t1" "$t2" <<'PY'
import json,sys
n,o,m,t1,t2=sys.argv[1:]
p=f"/verif/seeded/{n}/meta.json"; j=json.load(open(p))
j["verified"]={"demo_exit_unchanged_tree":int(o),"demo_exit_with_patch":int(m),"pinned_doctests_with_patch":t1.strip(),"tests_dir_with_patch":t2.strip(),"how":"tools/verify_seeded.sh in a scratch git worktree of /repo (removed afterwards)"}
json.dump(j,open(p,"w"),indent=1)
PY
